"""C01 — programs of guard / scope / emission operations on 1-4 threads against the real
set_default_local_recorder / with_local_recorder / with_recorder / set_global_recorder and every macro form."""
import json
import os
import re

from . import core
from .core import Prop, MachineryBroken, cq_N, cq_list, cq_opt, cq_bool, cq_bytes
from .c01_forms import FORMS, UNITS, COQ_CALLS, uses

UNIT_IX = {s: i for i, (_, s) in enumerate(UNITS)}
NAMES = ["req", "a", "", "nämé", "lat.ms", "x y", "const_name", "q_total"]
VALS = ["v", "", "http", "é", "200", "k"]
KEYS = ["k", "a", "b", "", "svc"]
DESCS = ["", "d", "some text", "bytes → out"]


def analyse(ops):
    """mirror of coq/C01: lower + the scope machine.  -> (wf, non_lifo, has_forget)"""
    nxt = 0
    frames = {}
    fgids = set()
    scopes = []          # newest first: [g, t, r, forgot]
    live = {}
    glob = None
    wf, nonlifo, forget = True, False, False

    def holds(t, g):
        return any(s[1] == t and s[0] == g and not s[3] for s in scopes)

    def top(t):
        for s in scopes:
            if s[1] == t:
                return s
        return None

    def drop(t, g):
        nonlocal wf, nonlifo
        tp = top(t)
        if tp is None or tp[0] != g:
            nonlifo = True
        if not holds(t, g):
            wf = False
            return
        for i, s in enumerate(scopes):
            if s[1] == t and s[0] == g:
                del scopes[i]
                break

    for o in ops:
        k = o[0]
        if k in ("I", "W"):
            t, r = o[1], o[2]
            if not live.get(r, True):
                wf = False
            scopes.insert(0, [nxt, t, r, False])
            if k == "W":
                frames.setdefault(t, []).insert(0, nxt)
                fgids.add(nxt)
            nxt += 1
        elif k == "X":
            fs = frames.get(o[1], [])
            if fs:
                drop(o[1], fs.pop(0))
        elif k == "P":
            fs = frames.get(o[1], [])
            frames[o[1]] = []
            for g in fs:
                drop(o[1], g)
        elif k == "D":
            if o[2] not in fgids:
                drop(o[1], o[2])
        elif k == "F":
            if o[2] not in fgids:
                forget = True
                if not holds(o[1], o[2]):
                    wf = False
                else:
                    for s in scopes:
                        if s[1] == o[1] and s[0] == o[2]:
                            s[3] = True
                            break
        elif k == "B":
            r = o[1]
            if any((not s[3]) and s[2] == r for s in scopes) or glob == r:
                wf = False
            live[r] = False
        elif k == "G":
            if not live.get(o[1], True):
                wf = False
            if glob is None:
                glob = o[1]
    return wf, nonlifo, forget


# ------------------------------------------------------------------------------ recorder population
# WHERE a recorder double lives is a dimension of the case the Coq model does not see (recorders are identities there):
# recs = {"<rid>": ["w", inner_rid] | ["z", type 0..3] | ["s", slot, view type 0/1]}; a rid without an entry has a leaked Box
# of its own.  "w": a repr(C) decorator whose first field is the wrapped double (same data address, other vtable);
# "z": a zero-sized recorder type (all boxed ZSTs share one address); "s": reusable storage: a later rid of the slot is
# constructed, at its first I/W/G, at the address its dead predecessor occupied (same or other vtable).
def place_ok(recs):
    inner, ztypes = set(), set()
    for r, p in recs.items():
        if p[0] == "w":
            i = str(p[1])
            if i == r or i in recs or i in inner:
                return False
            inner.add(i)
        elif p[0] == "z":
            if p[1] in ztypes or not 0 <= p[1] < 4:
                return False
            ztypes.add(p[1])
        elif p[0] != "s":
            return False
    return not any(r in inner for r in recs)


def twin(recs, a, b):
    """two DIFFERENT recorders at one address (at the same or at different times)"""
    if a == b:
        return False
    pa, pb = recs.get(str(a)), recs.get(str(b))
    if pa and pa[0] == "w" and pa[1] == b or pb and pb[0] == "w" and pb[1] == a:
        return True
    if pa and pb and pa[0] == pb[0] == "z":
        return True
    return bool(pa and pb and pa[0] == pb[0] == "s" and pa[1] == pb[1])


class Mirror:
    """python transcription of coq/C01/Model.v (lower + step), used to know which recorders the thread-local slots and the
    saved prev pointers can still name (slot reuse is only allowed for a predecessor no pointer names any more, so that
    model and implementation keep agreeing inside the known classes too), and to measure the population dimension."""

    def __init__(self, recs):
        self.recs = recs
        self.nxt = 0
        self.tls, self.frames, self.guards, self.fgids = {}, {}, {}, set()
        self.dead, self.glob = set(), None
        self.occ = {}
        self.ok = True
        self.twin_active = {}
        self.stat = dict(twin_nestings=0, emissions_inside_twin_nesting=0, same_recorder_nestings=0, slot_reuses=0)

    def reachable(self):
        rs = set(v for v in self.tls.values() if v is not None)
        rs |= set(g[2] for g in self.guards.values() if g[3] == "A" and g[2] is not None)
        if self.glob is not None:
            rs.add(self.glob)
        return rs

    def installable(self, r):
        p = self.recs.get(str(r))
        if not p or p[0] != "s":
            return True
        o = self.occ.get(p[1])
        return o is None or o == r or (o in self.dead and o not in self.reachable())

    def activate(self, r):
        p = self.recs.get(str(r))
        if p and p[0] == "s":
            if not self.installable(r):
                self.ok = False
            if self.occ.get(p[1]) not in (None, r):
                self.stat["slot_reuses"] += 1
            self.occ[p[1]] = r

    def drop(self, t, g):
        x = self.guards.get(g)
        if x and x[0] == t and x[3] == "A":
            self.tls[t] = x[2]
            x[3] = "D"
            self.twin_active[t] = False

    def apply(self, o):
        k = o[0]
        if k in ("I", "W"):
            t, r = o[1], o[2]
            self.activate(r)
            cur = self.tls.get(t)
            if cur is not None and cur == r:
                self.stat["same_recorder_nestings"] += 1
            self.twin_active[t] = cur is not None and twin(self.recs, cur, r)
            if self.twin_active[t]:
                self.stat["twin_nestings"] += 1
            self.guards[self.nxt] = [t, r, cur, "A"]
            self.tls[t] = r
            if k == "W":
                self.frames.setdefault(t, []).insert(0, self.nxt)
                self.fgids.add(self.nxt)
            self.nxt += 1
        elif k == "D":
            if o[2] not in self.fgids:
                self.drop(o[1], o[2])
        elif k == "F":
            x = self.guards.get(o[2])
            if o[2] not in self.fgids and x and x[0] == o[1] and x[3] == "A":
                x[3] = "F"
        elif k == "X":
            fs = self.frames.get(o[1], [])
            if fs:
                self.drop(o[1], fs.pop(0))
        elif k == "P":
            fs = self.frames.get(o[1], [])
            self.frames[o[1]] = []
            for g in fs:
                self.drop(o[1], g)
        elif k == "B":
            self.dead.add(o[1])
        elif k == "G":
            self.activate(o[1])
            if self.glob is None:
                self.glob = o[1]
        elif k == "E":
            if self.twin_active.get(o[1]):
                self.stat["emissions_inside_twin_nesting"] += 1


def study(c):
    """-> (valid placement and slot discipline, stats)"""
    recs = c.get("recs", {})
    m = Mirror(recs)
    for o in c["ops"]:
        m.apply(o)
    return place_ok(recs) and m.ok, m.stat


def case_ok(c):
    return analyse(c["ops"])[0] and study(c)[0]


class Gen:
    """incremental generator of well-formed programs (tracks what the next operation may be)"""

    def __init__(self, rng, nthreads, nrec, lifo, recs=None):
        self.rng, self.nt, self.nr, self.lifo = rng, nthreads, nrec, lifo
        self.recs = recs or {}
        self.m = Mirror(self.recs)
        self.ops = []
        self.nxt = 0
        self.stack = {t: [] for t in range(nthreads)}   # alive guards of t, innermost first: (gid, rid, is_frame)
        self.leaked = []                                  # forgotten (gid, rid)
        self.live = {r: True for r in range(nrec)}
        self.glob = None

    def push(self, o):
        self.ops.append(o)
        self.m.apply(o)

    def case(self):
        return dict(ops=self.ops, recs=self.recs) if self.recs else dict(ops=self.ops)

    def pick_rec(self, t, cands):
        """recorder for an Install/Enter on t: biased towards the address twins of the recorder currently in scope, and
        towards that very recorder (nesting the same recorder twice)"""
        rng = self.rng
        cur = self.m.tls.get(t)
        if cur is not None:
            tw = [r for r in cands if twin(self.recs, cur, r)]
            if tw and rng.chance(1, 2):
                return rng.pick(tw)
            if cur in cands and rng.chance(1, 10):
                return cur
        return rng.pick(cands)

    def emit(self, t=None):
        rng = self.rng
        t = rng.below(self.nt) if t is None else t
        site = rng.below(len(FORMS))
        a = dict(n=rng.pick(NAMES), v=[rng.pick(VALS), rng.pick(VALS)], d=rng.pick(DESCS), u=rng.below(len(UNITS)),
                 l=[[rng.pick(KEYS), rng.pick(VALS)] for _ in range(rng.weighted([(3, 0), (4, 1), (3, 2), (1, 3)]))])
        self.push(["E", t, site, a])

    def borrowed(self, r):
        return any(x[1] == r for st in self.stack.values() for x in st) or self.glob == r

    def step(self):
        for _ in range(4):
            if self.attempt():
                return
        self.emit()

    def attempt(self):
        rng = self.rng
        t = rng.below(self.nt)
        st = self.stack[t]
        k = rng.weighted([(5, "I"), (4, "W"), (6 if self.lifo else 9, "D"), (4, "X"), (1, "P"), (3, "B"), (7, "E"),
                          (0 if self.lifo else 3, "F")])
        liverecs = [r for r in range(self.nr) if self.live[r]]
        if k in ("I", "W"):
            cands = [r for r in liverecs if self.m.installable(r)]
            if not cands or sum(len(s) for s in self.stack.values()) >= 8:
                return False
            r = self.pick_rec(t, cands)
            self.push([k, t, r])
            st.insert(0, (self.nxt, r, k == "W"))
            self.nxt += 1
        elif k == "D":
            cands = [x for x in st if not x[2]]
            if self.lifo:
                cands = [st[0]] if st and not st[0][2] else []
            if not cands:
                return False
            x = rng.pick(cands)
            if not self.lifo and len(st) > 1 and rng.chance(1, 2):
                older = [y for y in cands if y is not st[0]]
                if older:
                    x = rng.pick(older)          # an older guard while a younger one is alive
            self.push(["D", t, x[0]])
            st.remove(x)
        elif k == "F":
            cands = [x for x in st if not x[2]]
            if not cands:
                return False
            x = rng.pick(cands)
            self.push(["F", t, x[0]])
            st.remove(x)
            self.leaked.append(x)
        elif k == "X":
            fr = [x for x in st if x[2]]
            if not fr or (self.lifo and not st[0][2]):
                return False
            self.push(["X", t])
            st.remove(fr[0])
        elif k == "P":
            fr = [x for x in st if x[2]]
            if self.lifo and fr:
                # every frame must be above every table guard
                nfr = len(fr)
                if not all(x[2] for x in st[:nfr]):
                    return False
            self.push(["P", t])
            for x in fr:
                st.remove(x)
        elif k == "B":
            cands = [r for r in liverecs if not self.borrowed(r)]
            # prefer ending the borrow of a recorder that was installed at some point
            used = [r for r in cands if any(o[0] in ("I", "W") and o[2] == r for o in self.ops)]
            if not cands or (not used and rng.chance(2, 3)):
                return False
            r = rng.pick(used or cands)
            self.push(["B", r])
            self.live[r] = False
            # a recorder of the same slot can now be constructed where r was
            mates = [q for q in liverecs if q != r and twin(self.recs, q, r) and self.recs.get(str(q), [None])[0] == "s" and self.m.installable(q)]
            if mates and rng.chance(2, 3) and sum(len(s) for s in self.stack.values()) < 8:
                q, t2, k2 = rng.pick(mates), rng.below(self.nt), rng.pick(["I", "W"])
                self.push([k2, t2, q])
                self.stack[t2].insert(0, (self.nxt, q, k2 == "W"))
                self.nxt += 1
                self.emit(t2)
            # a dangling pointer is only visible through an emission: make one likely
            if rng.chance(2, 3):
                self.emit(rng.below(self.nt))
        else:
            self.emit(t)
        return True

    def set_global(self):
        liverecs = [r for r in range(self.nr) if self.live[r] and self.m.installable(r)]
        if liverecs:
            r = self.rng.pick(liverecs)
            self.push(["G", r])
            if self.glob is None:
                self.glob = r


def strhex(s):
    return "x" + s.encode("utf-8").hex()


class C01(Prop):
    pid = "C01"
    pkg = "hcore"
    binname = "c01"
    quick_cases = 2000
    thorough_cases = 60000
    shard = 150
    design_ref = "DESIGN.md 4 C01"
    technique = ("Coq proof: refinement of the save/restore-pointer model of LocalRecorderGuard + with_recorder to a scope-list reference "
                 "semantics for every well-formed LIFO program (any threads, depth, panics), classification of the only two ways out of it; "
                 "differential correspondence: programs of guard/scope/emission operations on 1-4 real threads through every macro form")
    level_text = ("Theorems (Coq, all programs of Install/DropGuard/Forget/EndBorrow/SetGlobal/Emit on any number of threads, with_local_recorder "
                  "closures and panics lowered to them): for programs safe Rust admits whose guards are closed innermost-first and never leaked, the "
                  "model's dispatch log equals the scope semantics (receiver = recorder of the thread's innermost open scope, else global, else nobody; "
                  "payload = what the call site spells) and no entry reaches a recorder whose borrow ended; every emission is logged exactly once to "
                  "tls > global > no-op with the expanded payload; no operation of a thread changes another thread's pointer; dropping a guard restores "
                  "the pointer saved at its installation and, under LIFO, the pointer is the recorder of the innermost open scope; every nesting of "
                  "with_local_recorder closures with emissions, set_global_recorder and panics (no guards handled by the program) lowers to a "
                  "well-formed LIFO program. A dispatch to a "
                  "dead recorder happens only in the two open known classes (non-LIFO drop, mem::forget), each witnessed in Coq and replayed on the "
                  "real code. The model is tied to /repo by running the real functions and all 204 macro call sites on the same programs each run.")
    level_note = ("wf_prog is an assumption about which programs exist; it is enforced by rustc through the signature of "
                  "set_default_local_recorder/LocalRecorderGuard<'a> and checked each run by compiling the negative programs of "
                  "harness/negative/c01 (a negative program that compiles is a VIOLATION). Four representative shapes, not a proof about the type system. "
                  "Recorder identity: the doubles include different recorders that share a data address (decorator/decorated, zero-sized types, "
                  "storage reuse) and recorders of one type at different addresses; the model identifies recorders by id only, so the "
                  "correspondence run checks that neither address nor type decides where an emission goes (evaluated per run, not proved). "
                  "The use-after-scope itself is replaced by a flag on leaked recorder doubles (no real dangling dereference); the unsafe transmute is "
                  "not modelled. The macro layer is modelled per token class of each argument position (literal / constant expression / computed "
                  "String / label collection), not by parsing macro_rules!; `spelled` (Spec) and `expand` (Model) are two readings of the same "
                  "call-site description, proved equal. Label collections that reorder (maps) are not in the table. A panic is a scripted "
                  "panic_any caught at the worker's top level; guards made by set_default_local_recorder are kept in a per-thread table outside "
                  "all closures, so unwinding drops only with_local_recorder's own guards.")
    rule = ("random well-formed programs (2-29 ops) on 1-4 threads over <=6 recorder doubles, <=8 open guards: 60% generated under the LIFO "
            "discipline (Install/DropGuard/Enter/Exit/Panic nestings), 40% with arbitrary drop order, guards kept past their closure and "
            "mem::forget (about 22% of all programs end up in a known class), EndBorrow usually followed by an emission, ~5% with SetGlobal "
            "(own process), plus 5% directed shapes around the two findings and their LIFO neighbours; every Emit picks one of 204 macro call "
            "sites and small-alphabet arguments (empty strings, non-ASCII, duplicate/unsorted label keys); recorder population (a dimension "
            "the model does not see; 65% of programs): a repr(C) decorator double whose first field is the wrapped double (one address, two "
            "vtables), up to 4 distinct zero-sized recorder types (boxed at one address), 2-3 doubles constructed one after the other in the "
            "same storage (after the predecessor's borrow ended and no pointer names it), the rest in boxes of their own (one type, distinct "
            "addresses); Install/Enter prefers an address twin of the recorder in scope (1/2) or that recorder itself (1/10); plus 5% directed "
            "twin shapes (nested either way, side by side on two threads, reuse, self-nesting); distribution in coverage.recorder_population; "
            "corpus first; "
            "non-trivial = at least one emission reached a recorder double; distinct = distinct (program, observed log)")
    assumptions = ["a dispatch to a recorder whose borrow ended is observed through the double's cleared in-scope flag, not executed as a real use-after-free",
                   "workers execute the global operation list in order (commands over channels), so the interleaving is the program order",
                   "RecorderOnceCell::set installs only the first recorder (C02)",
                   "storage of a recorder double is reused only for a predecessor whose borrow ended and that no thread-local slot or live guard's "
                   "saved pointer names in the model (vlib/c01.py Mirror), so that a dangling dispatch inside the known classes still reaches the "
                   "double the model names"]
    trusted_extra = ["rustc 1.74.0 borrow/Send checking: wf_prog (no EndBorrow while a live guard borrows the recorder; guard operations only on "
                     "the installing thread) is tied to the code by the compile-fail engine harness/negative/c01 (4 programs that must be "
                     "rejected with E0597/E0515/E0505/E0277 against /repo, 1 positive control), run on every check",
                     "vlib/c01_forms.py: generates both the Rust call-site table (c01_sites.rs) and its Coq description (C01/Sites.v)",
                     "rustc's macro_rules! matching (which arm a call site takes) is exercised by compiling the 204 sites, not modelled",
                     "std::sync::mpsc, std::thread, catch_unwind (exercised, not modelled)"]

    # ------------------------------------------------------------------ generator
    def placements(self, r, nrec):
        """where the nrec doubles of a program live (see `recorder population` above)"""
        recs = {}
        if r.chance(35, 100):
            return recs
        free = r.shuffle(list(range(nrec)))
        if len(free) >= 2 and r.chance(1, 2):
            w, i = free.pop(), free.pop()
            recs[str(w)] = ["w", i]
        if len(free) >= 2 and r.chance(1, 3):
            slot = r.below(2)
            for _ in range(r.range(2, min(3, len(free)))):
                recs[str(free.pop())] = ["s", slot, r.below(2)]
        ztypes = r.shuffle([0, 1, 2, 3])
        for q in list(free):
            if ztypes and r.chance(1, 2):
                recs[str(q)] = ["z", ztypes.pop()]
        return recs

    def gen(self, rng, n):
        cases = []
        for i in range(n):
            r = rng.fork()
            lifo = r.chance(6, 10)
            nt, nrec = r.range(1, 4), r.range(1, 6)
            g = Gen(r, nt, nrec, lifo, self.placements(r, nrec))
            nops = r.range(2, 24)
            with_global = r.chance(1, 20)
            gpos = r.below(nops) if with_global else -1
            for j in range(nops):
                if j == gpos:
                    g.set_global()
                g.step()
            if r.chance(1, 2):
                g.emit()
            if with_global and r.chance(1, 4):
                g.set_global()
                g.emit()
            cases.append(g.case())
        # directed stream 1: the shapes around the known findings and their LIFO neighbours
        m = max(1, n // 20)
        plain = dict(n="a", v=["", ""], d="", u=0, l=[])
        for i in range(m):
            r = rng.fork()
            t = r.below(2)
            a, b = r.below(3), r.below(3)
            g = Gen(r, 2, 3, False)
            shape = i % 5
            if shape == 0:
                pre = [["I", t, a], ["I", t, b], ["D", t, 0], ["D", t, 1]]
            elif shape == 1:
                pre = [["I", t, a], ["I", t, b], ["D", t, 1], ["D", t, 0]]
            elif shape == 2:
                pre = [["I", t, a], ["F", t, 0]]
            elif shape == 3:
                pre = [["W", t, a], ["I", t, b], ["X", t], ["D", t, 1]]
            else:
                pre = [["W", t, a], ["W", t, b], ["E", t, r.below(len(FORMS)), plain], ["P", t]]
            for o in pre + [["B", a]] + ([["B", b]] if b != a else []):
                g.push(o)
            g.emit(t)
            g.emit(1 - t)
            if case_ok(g.case()):
                cases.append(g.case())
        # directed stream 2: two DIFFERENT recorders at one address, nested on one thread / side by side on two threads /
        # one after the other in the same storage; and the same recorder nested in itself
        for i in range(m):
            r = rng.fork()
            t = r.below(2)
            shape = i % 6
            a, b, c = r.shuffle([0, 1, 2])
            if shape in (0, 1):
                recs = {str(a): ["w", b]}
            elif shape == 2:
                recs = {str(a): ["z", r.below(4)]}
                recs[str(b)] = ["z", (recs[str(a)][1] + 1 + r.below(3)) % 4]
            elif shape == 3:
                recs = {str(a): ["s", 0, r.below(2)], str(b): ["s", 0, r.below(2)]}
            elif shape == 4:
                recs = {str(a): ["w", b], str(c): ["z", 0]}
            else:
                recs = {}
            g = Gen(r, 2, 3, True, recs)
            x, y = (a, b) if r.chance(1, 2) else (b, a)
            op = r.pick(["W", "I"])
            if shape == 3:          # y constructed where the dead x was
                pre = [[op, t, x], "e", "close", ["B", x], [op, t, y], "e", "close", "e"]
            elif shape == 5:        # the same recorder nested in itself
                pre = [[op, t, x], [op, t, x], "e", "close", "e", "close", "e"]
            elif shape == 1:        # twins side by side on two threads
                pre = [[op, t, x], [op, 1 - t, y], "e", "e2", "close2", "e", "close"]
            else:                   # twins nested on one thread (decorator outside or inside)
                pre = [[op, t, x], "e", [op, t, y], "e", "close", "e", "close", "e"]
            gids = {}
            for o in pre:
                if o in ("e", "e2"):
                    g.emit(t if o == "e" else 1 - t)
                elif o in ("close", "close2"):
                    tt = t if o == "close" else 1 - t
                    g.push(["X", tt] if op == "W" else ["D", tt, gids[tt].pop()])
                else:
                    if o[0] in ("I", "W"):
                        gids.setdefault(o[1], []).append(g.m.nxt)
                    g.push(o)
            if case_ok(g.case()):
                cases.append(g.case())
        if getattr(self, "_pop_stats", None) is None:
            st = dict(programs=len(cases), plain=0, with_decorator=0, with_zst=0, with_two_zst=0, with_shared_slot=0,
                      twin_nestings=0, emissions_inside_twin_nesting=0, same_recorder_nestings=0, slot_reuses=0,
                      programs_with_twin_nesting=0)
            for c in cases:
                recs = c.get("recs", {})
                kinds = [p[0] for p in recs.values()]
                st["plain"] += not recs
                st["with_decorator"] += "w" in kinds
                st["with_zst"] += "z" in kinds
                st["with_two_zst"] += kinds.count("z") >= 2
                st["with_shared_slot"] += kinds.count("s") >= 2
                _, ms = study(c)
                for k2, v in ms.items():
                    st[k2] += v
                st["programs_with_twin_nesting"] += ms["twin_nestings"] > 0
            self._pop_stats = st
        return cases

    # ------------------------------------------------------------------ implementation side
    # ------------------------------------------------------------------ compile-fail engine
    # wf_prog (Spec.v) says what safe Rust admits: no EndBorrow r while an Alive guard installed r, guard operations only
    # by the owning thread.  In the real crate these facts are enforced by rustc through the signature of
    # set_default_local_recorder / LocalRecorderGuard<'a> (PhantomData<&'a dyn Recorder>, NonNull => !Send), not by any
    # code that runs.  harness/negative/c01 holds programs that violate them; each must be rejected with the error code
    # named in its first line (`// expect: E0597`), and the positive control must compile.
    def negative_dir(self):
        return os.path.join(core.HARNESS, "negative", "c01")

    def negative_programs(self):
        d = os.path.join(self.negative_dir(), "src", "bin")
        out = []
        for f in sorted(os.listdir(d)):
            if f.endswith(".rs"):
                txt = open(os.path.join(d, f), encoding="utf-8").read()
                m = re.match(r"// expect: (\w+)", txt)
                if not m:
                    raise MachineryBroken("negative program %s has no `// expect:` line" % f)
                out.append((f[:-3], m.group(1), txt))
        return out

    def compile_program(self, name):
        env = {"RUSTFLAGS": "--cfg metrics_verif", "CARGO_TARGET_DIR": core.TARGET, "CARGO_NET_OFFLINE": "true"}
        rc, out = core.sh(["cargo", core.TOOLCHAIN, "build", "--offline", "--release", "--bin", name],
                          cwd=self.negative_dir(), timeout=900, env=env)
        return rc, out

    def negative_verdict(self, name):
        """-> (rejected_as_expected: bool, compiler output).  Raises MachineryBroken when the outcome says nothing
        about the property (control does not compile, or a program is rejected for another reason)."""
        progs = {n: (exp, txt) for n, exp, txt in self.negative_programs()}
        if name not in progs:
            raise MachineryBroken("no negative program %s" % name)
        exp = progs[name][0]
        rc, out = self.compile_program(name)
        if exp == "ok":
            if rc != 0:
                raise MachineryBroken("C01 compile-fail engine: the positive control %s does not compile:\n%s" % (name, out[-2500:]))
            return True, out
        if rc == 0:
            return False, out
        if ("error[%s]" % exp) not in out or ("src/bin/%s.rs" % name) not in out:
            raise MachineryBroken("C01 compile-fail engine: %s is rejected, but not with %s in its own source:\n%s" % (name, exp, out[-2500:]))
        return True, out

    def extra_checks(self, ctx):
        vio = []
        n_rej = 0
        progs = self.negative_programs()
        for name, exp, txt in progs:
            ok, out = self.negative_verdict(name)
            if exp != "ok" and ok:
                n_rej += 1
            if not ok:
                vio.append(("compile",
                            "safe Rust now admits a program in which an emission is dispatched after the installing borrow ended "
                            "(or a guard leaves its thread): harness/negative/c01/src/bin/%s.rs, which rustc must reject with %s, "
                            "compiles against /repo; wf_prog no longer describes the programs the crate accepts, so the C01 "
                            "theorems no longer cover every safe program" % (name, exp),
                            dict(case=dict(negative=name), expected_error=exp, program=txt,
                                 build_cmd="cd harness/negative/c01 && RUSTFLAGS='--cfg metrics_verif' cargo +1.74.0 build --offline --release --bin %s" % name)))
        ctx["coverage"]["compile_fail_programs_rejected"] = n_rej
        ctx["coverage"]["compile_fail_programs"] = [n for n, e, _ in progs if e != "ok"]
        ctx["coverage"]["compile_positive_controls"] = [n for n, e, _ in progs if e == "ok"]
        # the recorder-population dimension of the generated programs (the Coq model does not see it)
        pop = dict(getattr(self, "_pop_stats", None) or {})
        pop["pairs_of_doubles_at_one_address_observed_by_driver"] = getattr(self, "_same_addr", 0)
        pop["programs_where_driver_saw_shared_address"] = getattr(self, "_same_addr_cases", 0)
        ctx["coverage"]["recorder_population"] = pop
        return vio

    def evaluate(self, binpath, cases, tier, tag="cases"):
        neg = [c for c in cases if "negative" in c]
        if neg:
            # replay of a compile-fail violation: spec = "the program is rejected as expected"
            rs = []
            for c in cases:
                if "negative" in c:
                    ok, out = self.negative_verdict(c["negative"])
                    rs.append(dict(case=c, out=out[-1500:], agree=True, spec=ok, known=None))
                else:
                    rs += self.evaluate(binpath, [c], tier, tag)
            return rs
        rs = super().evaluate(binpath, cases, tier, tag)
        for r in rs:
            if r["known"] == 99:
                # the Coq side says this is not a program safe Rust admits: spec_ok is vacuous on it
                raise MachineryBroken("C01 generator/shrinker produced a case that wf_prog rejects: %s" % json.dumps(r["case"]))
        return rs

    def impl_line(self, c):
        toks = []
        for r, p in sorted(c.get("recs", {}).items()):
            toks.append("R%s:%s" % (r, "w%d" % p[1] if p[0] == "w" else "z%d" % p[1] if p[0] == "z" else "s%d.%d" % (p[1], p[2])))
        for o in c["ops"]:
            k = o[0]
            if k in ("I", "W", "D", "F"):
                toks.append("%s%d:%d" % (k, o[1], o[2]))
            elif k in ("X", "P", "B", "G"):
                toks.append("%s%d" % (k, o[1]))
            else:
                a = o[3]
                toks.append("E%d:%d:%s:%s:%s:%s:%d:%s" % (o[1], o[2], strhex(a["n"]), strhex(a["v"][0]), strhex(a["v"][1]),
                                                        strhex(a["d"]), a["u"], ",".join("%s=%s" % (strhex(k2), strhex(v)) for k2, v in a["l"])))
        return " ".join(toks)

    def parse_out(self, c, line):
        try:
            d = json.loads(line)
        except ValueError:
            return {"error": line[:200]}
        if isinstance(d, dict) and "o" in d:
            self._same_addr = getattr(self, "_same_addr", 0) + d.get("same", 0)
            self._same_addr_cases = getattr(self, "_same_addr_cases", 0) + (d.get("same", 0) > 0)
            return d["o"]
        return d

    # ------------------------------------------------------------------ Coq side
    def coq_case(self, c):
        xs = []
        if "negative" in c:
            return "[]"
        for o in c["ops"]:
            k = o[0]
            if k == "I":
                xs.append("SInstall %d %d" % (o[1], o[2]))
            elif k == "W":
                xs.append("SEnter %d %d" % (o[1], o[2]))
            elif k == "D":
                xs.append("SDrop %d %d" % (o[1], o[2]))
            elif k == "F":
                xs.append("SForget %d %d" % (o[1], o[2]))
            elif k == "X":
                xs.append("SExit %d" % o[1])
            elif k == "P":
                xs.append("SPanic %d" % o[1])
            elif k == "B":
                xs.append("SEndBorrow %d" % o[1])
            elif k == "G":
                xs.append("SSetGlobal %d" % o[1])
            else:
                a = o[3]
                args = "{| a_strs := %s; a_lbls := %s; a_unit := %d |}" % (
                    cq_list([cq_bytes(a["n"]), cq_bytes(a["v"][0]), cq_bytes(a["v"][1]), cq_bytes(a["d"])]),
                    cq_list(["(%s, %s)" % (cq_bytes(k2), cq_bytes(v)) for k2, v in a["l"]]), a["u"])
                xs.append("SEmit %d (site %d) %s" % (o[1], o[2], args))
        return cq_list(xs)

    def coq_out(self, c, out):
        def hb(h):
            return '(hx "%s")' % h

        def entry(e):
            m = "None"
            if e["m"] is not None:
                m = "(Some {| m_target := %s; m_level := %d; m_module := %s |})" % (
                    hb(e["m"][0]), e["m"][1], "None" if e["m"][2] is None else "(Some %s)" % hb(e["m"][2]))
            u = "None" if e["u"] is None else "(Some %d)" % UNIT_IX.get(e["u"], 99)
            p = "{| p_call := %s; p_name := %s; p_labels := %s; p_meta := %s; p_unit := %s; p_desc := %s |}" % (
                COQ_CALLS[e["c"]], hb(e["n"]), cq_list(["(%s, %s)" % (hb(k), hb(v)) for k, v in e["l"]]), m, u, hb(e["d"]))
            return "{| o_rid := %d; o_tid := %d; o_payload := %s; o_dead := %s |}" % (e["r"], e["t"], p, cq_bool(e["x"]))

        if isinstance(out, dict):     # the driver reported an error: an output no specification allows
            bad = dict(r=4294967295, t=4294967295, c=0, n="", l=[], m=None, u=None, d="", x=1)
            return cq_list([cq_list([entry(bad)])])
        return cq_list([cq_list([entry(e) for e in es]) for es in out])

    def signature(self, c, out):
        if isinstance(out, dict) or not any(es for es in out):
            return None
        return [c, out]

    def shrink(self, c):
        if "negative" in c:
            return []
        ops = c["ops"]
        recs = c.get("recs", {})

        def mk(ops2, recs2=recs):
            return dict(ops=ops2, recs=recs2) if recs2 else dict(ops=ops2)
        cands = []
        for r in recs:
            cands.append(mk(ops, {k2: v for k2, v in recs.items() if k2 != r}))
        for i, o in enumerate(ops):
            rest = [list(x) for x in ops[:i] + ops[i + 1:]]
            if o[0] in ("I", "W"):
                g = sum(1 for x in ops[:i] if x[0] in ("I", "W"))
                rest = [x for x in rest if not (x[0] in ("D", "F") and x[2] == g)]
                for x in rest:
                    if x[0] in ("D", "F") and x[2] > g:
                        x[2] -= 1
            cands.append(mk(rest))
        for i, o in enumerate(ops):
            if o[0] == "E":
                a = o[3]
                if o[2] != 0:
                    cands.append(mk(ops[:i] + [["E", o[1], 0, a]] + ops[i + 1:]))
                plain = dict(n="a", v=["", ""], d="", u=0, l=[])
                if a != plain:
                    cands.append(mk(ops[:i] + [["E", o[1], o[2], plain]] + ops[i + 1:]))
            if o[0] == "W":
                # a with_local_recorder scope as a plain guard
                pass
        return [x for x in cands if case_ok(x)]


PROP = C01()
