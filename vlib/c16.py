"""C16 — sampling reservoir: push/drain histories with scripted draws (sequential), and
schedule replay of pushers against a consumer (concurrent)."""
import struct
from .core import Prop, cq_N, cq_Z, cq_list, cq_opt, cq_bool

DEFAULT_CAP = 1024        # metrics-exporter-dogstatsd DEFAULT_HISTOGRAM_RESERVOIR_SIZE


def f64_bits(x):
    return struct.unpack(">Q", struct.pack(">d", float(x)))[0]


ADV_VALUES = [
    0x7FF8000000000000, 0x7FF8000000000001, 0xFFF8000000000000,  # NaNs with different payloads
    0x8000000000000000, 0x0000000000000000,                      # -0.0, +0.0
    0x7FF0000000000000, 0xFFF0000000000000,                      # +inf, -inf
    0x0000000000000001, 0x7FEFFFFFFFFFFFFF, 0xFFFFFFFFFFFFFFFF,  # subnormal, max, all ones
]


class C16(Prop):
    pid = "C16"
    pkg = "hcore"
    binname = "c16"
    quick_cases = 2500
    thorough_cases = 20000
    shard = 160
    design_ref = "DESIGN.md 4 C16"
    technique = ("Coq proof about a hand-written executable model of reservoir.rs: refinement of the A/B reservoir to a per-cycle "
                 "Algorithm-R reference semantics for all capacities/histories/choices; exact counting (N arithmetic, induction on the "
                 "number of draws) of the choice sequences that retain each stream position; an interleaving machine with one step per "
                 "yield site for push || consume. Correspondence: the real AtomicSamplingReservoir is run with a scripted replacement of "
                 "the random draw that records every requested bound (sequential histories), and under the deterministic scheduler "
                 "through yield points 1601-1612 (schedule replay); outputs compared with the model per operation / per step. Two free-running "
                 "engines (no script, no scheduler, real RNG) run as sanity checks: per-position retention frequencies within 6 sigma of cap/n, on one "
                 "thread and with every trial on a fresh thread (plus the coincidence rate of consecutive fresh-thread outcomes), "
                 "and a pushers || consumer stress judged only by what holds even inside the open late-push class")
    level_text = ("Theorems (Coq). Sequential, all capacities incl. 0 and 1, all histories, all f64 bit patterns, all choices: the model of "
                  "Reservoir/Drain/AtomicSamplingReservoir (after the fix) equals the reference semantics (C16_model_meets_spec); a drain after "
                  "any earlier history reports n = pushes since the previous drain, len = min(n, cap), only values of this cycle, all of them in "
                  "order if n <= cap, sample rate 1 if n <= cap else cap/n (C16_drain_semantics); the next cycle starts empty; no push panics "
                  "(C16_total). Uniform retention: for every cap, every n >= cap and EVERY position i < n, (#choice sequences retaining i) * n = "
                  "cap * (#choice sequences), the choice sequences being exactly the duplicate-free product of the bounds idx+1 the code requests "
                  "(C16_uniform_retention, C16_counting_functions_count, C16_choice_sequences_*), with the retained set computed by the model's "
                  "push (C16_retention_runs_model_push). The code as found is refuted on both counts (cap=1,n=2; cap=0). Concurrent (interleaving "
                  "machine, one step per yield site; every schedule, thread count and program): outside the late-push class (no 1606 step retires a "
                  "side with a push in flight on it) every completed drain read count n = number of pushes that STARTED (1601) on its side since that "
                  "side's previous count reset, len = min(n, cap), yielded only values of those pushes, exactly the first ones in fetch_add order if n <= cap, "
                  "sample rate 1 if n <= cap else cap/n (C16_concurrent_accounting_except_late_push; C16_concurrent_accounting_outside_known_class for the "
                  "run a replayed case denotes). Unconditionally: count = fetch_adds since the last reset, no push panics, len = min(count read, cap), "
                  "returned drains are logged, consumers exclude each other and use_primary selects the other side while a drain is between swap and reset. "
                  "The late-push pattern breaks per-drain accounting (C16_late_push_refutes). "
                  "C16_spec_ok_on_model: for every case (sequential or threaded) outside the known class, any observation that agrees with the model passes "
                  "spec_ok - no anomaly, every drain clause, every push reports no draw below capacity and bound rank+1 above (example: racing_case_in_scope).")
    level_note = ("The executable check is proved to accept the model: C16_spec_ok_on_model (every case, sequential or threaded, every rate check) - for "
                  "threaded cases by a refinement between the trace walker (windows cut at the trace's 1606 steps, pushes ranked by their 1602 steps) and "
                  "the ghost ledgers along exec_full, outside the open known class. What ties the model to /repo remains the per-run evaluation: spec_ok "
                  "and the model comparison are evaluated on every "
                  "replayed schedule and sequential history (the implementation's own traces) and "
                  "held on all of them, failing only inside the open known class C16-late-push. Uniformity is conditional on rand's random_range "
                  "being uniform on the requested range AND on the thread-local generators being seeded independently per thread (both trusted by the "
                  "theorem; the hook only checks the range requested; both are SAMPLED per run: single-thread and fresh-thread retention trials within "
                  "6 sigma of cap/n, and consecutive fresh-thread trials coincide with the collision probability of independent runs); under concurrency uniformity is not "
                  "claimed (stores of concurrent pushes may land out of idx order). SC interleaving, Relaxed/Acquire/Release not modelled. "
                  "Schedule replay uses ONE consumer thread (a second consumer would block inside Mutex::lock, which the scheduler cannot step); the "
                  "machine models the mutex as a stutter. usize wrap of the counter at 2^64 not modelled. Sample rates are compared as IEEE "
                  "doubles computed by Coq's primitive floats from (len, count); the theorems speak about the exact pair.")
    rule = ("sequential: capacities {0,1,2,3,8,4..7,1024}, 1-4 cycles of pushes with n in {0,1,cap-1,cap,cap+1,cap+2,2cap+1,random}, raw choices "
            "from {0, idx, idx-1, cap-1, cap, random below idx+1, idx+1, large, 2^64-1}, partial drains, back-to-back drains, is_empty; values "
            "distinct integer-valued doubles plus NaN payloads/-0/inf/subnormal/duplicates; threaded: 2-3 threads, one consumer, cap 0..3, random/"
            "bursty/out-of-range/operation-atomic schedules + round-robin tail; non-trivial = contains a drain (seq) or both a fetch_add and a "
            "side swap (threaded); distinct = distinct (capacity, per-op outcome shape, choice residues) resp. (programs shape, step trace)")
    assumptions = ["rand::Rng::random_range(0..upper) is uniform on [0, upper) (uniform retention is stated over the requested bounds)",
                   "the thread-local generator behind fastrand is seeded independently for every thread (sampled by the fresh-thread trials, not proved)",
                   "counts stay below 2^53 (sample rate doubles exact) and below 2^64 (no usize wrap)",
                   "SC memory model for the threaded runs; yield hooks placed before each shared access of reservoir.rs",
                   "the scripted draw of the cfg(metrics_verif) hook returns script[k] mod upper, i.e. always a value a real RNG could return"]
    trusted_extra = ["harness/sched deterministic scheduler", "std atomics and Mutex (exercised, not modelled)",
                     "Coq primitive floats (PrimFloat.div/of_uint63) used only to compare observed sample-rate bit patterns in Exec.v, not in any theorem"]

    # ------------------------------------------------------------------ generation
    def gen_value(self, rng, st):
        r = rng.below(20)
        if r == 0:
            return rng.pick(ADV_VALUES)
        if r == 1 and st["vals"]:
            return rng.pick(st["vals"])            # duplicate of an earlier value
        st["next"] += 1
        v = f64_bits(st["next"])
        st["vals"].append(v)
        return v

    def gen_choice(self, rng, idx, cap):
        # idx = number of values already pushed in this cycle (the draw happens when idx >= cap)
        cands = [0, idx, max(idx - 1, 0), max(cap - 1, 0), cap, rng.below(idx + 1), rng.below(idx + 1),
                 rng.below(cap + 1), idx + 1, rng.below(1 << 20), (1 << 64) - 1]
        return rng.pick(cands)

    def gen_seq(self, rng, big=False):
        if big:
            cap = DEFAULT_CAP
        else:
            cap = rng.weighted([(2, 0), (5, 1), (5, 2), (5, 3), (3, 8), (1, rng.range(4, 7))])
        st = dict(next=0, vals=[])
        ops = []
        for _ in range(rng.range(1, 2 if big else 4)):
            if big:
                n = rng.pick([cap - 1, cap, cap + 1, cap + rng.range(2, 40)])
            else:
                n = rng.pick([0, 1, max(cap - 1, 0), cap, cap + 1, cap + 2, 2 * cap + 1, rng.below(cap + 7), rng.below(cap + 7)])
            idx = 0
            for _ in range(n):
                ops.append(["P", self.gen_value(rng, st), self.gen_choice(rng, idx, cap)])
                idx += 1
                if not big and rng.chance(1, 12):
                    ops.append(["E"])
            if rng.chance(1, 6):
                ops.append(["E"])
            r = rng.below(8)
            if r == 0:
                ops.append(["C", rng.below(cap + 2)])
            elif r == 1 and not big:
                pass                                   # no consume: the cycle just continues
            else:
                ops.append(["C", None])
            if rng.chance(1, 8):
                ops.append(["C", None])                # back-to-back drains
            if rng.chance(1, 8):
                ops.append(["E"])
        return dict(mode="S", cap=cap, ops=ops)

    def steps_of(self, ops, cap):
        return 1 + sum(3 if o[0] == "P" else 2 if o[0] == "E" else 7 + cap for o in ops)

    def gen_thr(self, rng):
        """pushers against ONE consumer thread (a second consumer would block in Mutex::lock
        outside a yield point, which the scheduler cannot step)"""
        cap = rng.weighted([(1, 0), (4, 1), (4, 2), (2, 3)])
        st = dict(next=0, vals=[])
        nt = rng.range(2, 3)
        cons = rng.below(nt)
        progs = []
        for t in range(nt):
            ops = []
            if t == cons:
                for _ in range(rng.range(1, 3)):
                    r = rng.below(10)
                    if r < 6:
                        ops.append(["C", None])
                    elif r < 7:
                        ops.append(["C", rng.below(cap + 1)])
                    elif r < 9:
                        st["next"] += 1
                        ops.append(["P", f64_bits(st["next"]), rng.below(cap + 3)])
                    else:
                        ops.append(["E"])
                if not any(o[0] == "C" for o in ops):
                    ops.append(["C", None])
            else:
                for _ in range(rng.range(1, 4)):
                    if rng.chance(1, 10):
                        ops.append(["E"])
                    else:
                        st["next"] += 1
                        ops.append(["P", f64_bits(st["next"]), rng.below(cap + 3)])
            progs.append(ops)
        total = sum(self.steps_of(p, cap) for p in progs)
        style = rng.below(4)
        sched = []
        if style == 3:
            # sequential-ish: whole operations one after another in random thread order (no late push)
            left = [[self.steps_of([o], cap) - 1 for o in p] for p in progs]
            started = [False] * nt
            while any(left):
                t = rng.pick([i for i in range(nt) if left[i]])
                k = left[t].pop(0)
                if not started[t]:
                    sched.append(t)
                    started[t] = True
                sched += [t] * k
        else:
            for _ in range(rng.range(0, total + 3)):
                if style == 0:
                    sched.append(rng.below(nt))
                elif style == 1:
                    sched.append(sched[-1] if sched and rng.chance(3, 4) else rng.below(nt))
                else:
                    sched.append(rng.below(nt + 1))
        return dict(mode="T", cap=cap, progs=progs, sched=sched)

    def gen(self, rng, n):
        cases = []
        nbig = max(1, n // 400)
        nthr = n * 2 // 5
        for i in range(n - nthr - nbig):
            cases.append(self.gen_seq(rng))
        for i in range(nthr):
            cases.append(self.gen_thr(rng))
        for i in range(nbig):                      # default-capacity cases last (expensive to shrink)
            cases.append(self.gen_seq(rng, big=True))
        return cases

    # ------------------------------------------------------------------ driver I/O
    def op_tok(self, o):
        if o[0] == "P":
            return "P%d:%d" % (o[1], o[2])
        if o[0] == "C":
            return "C" if o[1] is None else "C%d" % o[1]
        return "E"

    def impl_line(self, c):
        if c["mode"] == "T":
            return "T %d | %s | %s" % (c["cap"], " ; ".join(" ".join(self.op_tok(o) for o in p) for p in c["progs"]),
                                       " ".join(map(str, c["sched"])))
        return "S %d | %s" % (c["cap"], " ".join(self.op_tok(o) for o in c["ops"]))

    def parse_tok(self, t):
        if "!" in t or t in ("cp", "ep"):
            return ["x", t]
        if t == "f":
            return ["f"]
        if t[0] == "d":
            return ["d", int(t[1:])]
        if t[0] == "p":
            return ["x", t] if t[1:] == "-" else ["p", int(t[1:])]
        if t[0] == "c":
            rate, ln, vals = t[1:].split(":")
            return ["c", int(rate), int(ln), [int(v) for v in vals.split(",") if v]]
        if t[0] == "e":
            return ["e", int(t[1:])]
        return ["x", t]

    def parse_out(self, c, line):
        if c["mode"] == "T":
            tr, rs, done = [x.strip() for x in line.split(";")]
            trace = [[int(a), int(b)] for a, b in (x.split(":") for x in tr.split())]
            res = [[self.parse_tok(t) for t in p.split()] for p in rs.split("|")]
            return dict(mode="T", trace=trace, res=res, done=int(done))
        return dict(mode="S", obs=[self.parse_tok(t) for t in line.split()])

    # ------------------------------------------------------------------ Coq terms
    def coq_op(self, o):
        if o[0] == "P":
            return "Push %s %s" % (cq_N(o[1]), cq_N(o[2]))
        if o[0] == "C":
            return "Consume %s" % cq_opt(None if o[1] is None else cq_N(o[1]))
        return "IsEmpty"

    def coq_obs(self, t):
        if t[0] == "f":
            return "OPush PFill"
        if t[0] == "d":
            return "OPush (PDraw %s)" % cq_N(t[1])
        if t[0] == "p":
            return "OPush (PPanic %s)" % cq_N(t[1])
        if t[0] == "c":
            return "OConsume %s %s %s" % (cq_list([cq_N(v) for v in t[3]]), cq_N(t[2]), cq_Z(t[1]))
        if t[0] == "e":
            return "OEmpty %s" % cq_bool(t[1])
        return "OAnomaly"

    def coq_case(self, c):
        if c["mode"] == "T":
            return "(CThr %s %s %s)" % (cq_N(c["cap"]), cq_list([cq_list([self.coq_op(o) for o in p]) for p in c["progs"]]),
                                        cq_list([cq_N(t) for t in c["sched"]]))
        return "(CSeq %s %s)" % (cq_N(c["cap"]), cq_list([self.coq_op(o) for o in c["ops"]]))

    def coq_out(self, c, o):
        if o["mode"] == "T":
            return "(OThr %s %s %s)" % (cq_list(["(%s, %s)" % (cq_N(a), cq_N(b)) for a, b in o["trace"]]),
                                        cq_list([cq_list([self.coq_obs(t) for t in p]) for p in o["res"]]), cq_bool(o["done"]))
        return "(OSeq %s)" % cq_list([self.coq_obs(t) for t in o["obs"]])

    def collision_probability(self, cap, n):
        """probability that two independent runs of Algorithm R end with identical slot contents,
        by enumerating the choice sequences (None if there are too many)"""
        total = 1
        for idx in range(cap, n):
            total *= idx + 1
        if total > 200000:
            return None
        outcomes = {tuple(range(cap)): 1}
        for idx in range(cap, n):
            nxt = {}
            for slots, w in outcomes.items():
                for j in range(idx + 1):
                    s2 = slots if j >= cap else slots[:j] + (idx,) + slots[j + 1:]
                    nxt[s2] = nxt.get(s2, 0) + w
            outcomes = nxt
        return sum(w * w for w in outcomes.values()) / float(total * total)

    # ------------------------------------------------------------------ the real RNG path
    def extra_checks(self, ctx):
        """free-running trials (no script installed: fastrand falls through to the thread-local
        Xoshiro RNG): every position must be yielded with frequency cap/n within 6 sigma.  This is a
        sanity check of the un-scripted path only; the uniformity claim itself is the Coq theorem."""
        from .core import run_impl
        trials = 40000 if ctx["tier"] == "quick" else 1000000
        confs = [(1, 2), (1, 3), (2, 5), (2, 6), (3, 4), (8, 11)]
        rc, outs, err = run_impl(ctx["binpath"], ["R %d %d %d |" % (cap, n, trials) for cap, n in confs], timeout=900)
        viol, rows = [], []
        if rc != 0 or len(outs) != len(confs):
            return [("stat", "free-running trials did not run: rc=%s %s" % (rc, err[-500:]), dict(no_failing_input=True))]
        for (cap, n), line in zip(confs, outs):
            toks = line.split()
            bad, counts = int(toks[1]), [int(x) for x in toks[2:]]
            p = cap / n
            sigma = (trials * p * (1 - p)) ** 0.5
            worst = max(abs(c - trials * p) / sigma for c in counts)
            rows.append(dict(cap=cap, n=n, trials=trials, anomalies=bad, worst_sigma=round(worst, 2)))
            if bad or worst > 6:
                viol.append(("stat", "free-running reservoir (real RNG): position frequencies deviate from cap/n by %.1f sigma "
                             "or a drain reported a wrong length/sample rate (%d anomalies)" % (worst, bad),
                             dict(cap=cap, n=n, trials=trials, counts=counts, expected=trials * p, anomalies=bad)))
        ctx["coverage"]["free_running_trials"] = rows
        # the same on FRESH threads (one trial per spawned thread): the thread-local RNG must be seeded
        # independently per thread.  Per-position frequency within 6 sigma of cap/n, and the fraction of
        # consecutive trials with identical slot contents must be the collision probability of two
        # independent trials (computed by enumerating the choice sequences), not ~1.
        ftrials = 3000 if ctx["tier"] == "quick" else 30000
        fconfs = [(2, 6), (3, 7), (4, 16)]
        rc, outs, err = run_impl(ctx["binpath"], ["F %d %d %d |" % (cap, n, ftrials) for cap, n in fconfs], timeout=900)
        frows = []
        if rc != 0 or len(outs) != len(fconfs):
            viol.append(("stat", "fresh-thread trials did not run: rc=%s %s" % (rc, err[-500:]), dict(no_failing_input=True)))
        else:
            for (cap, n), line in zip(fconfs, outs):
                toks = line.split()
                bad, same, counts = int(toks[1]), int(toks[2]), [int(x) for x in toks[3:]]
                p = cap / n
                sigma = (ftrials * p * (1 - p)) ** 0.5
                worst = max(abs(c - ftrials * p) / sigma for c in counts)
                pc = self.collision_probability(cap, n)
                pairs = ftrials - 1
                if pc is None:
                    coll_ok, pc_txt = same <= 0.2 * pairs, "<=0.2"
                else:
                    coll_ok = abs(same - pairs * pc) <= 6 * (pairs * pc * (1 - pc)) ** 0.5 + 3
                    pc_txt = round(pc, 5)
                frows.append(dict(cap=cap, n=n, trials=ftrials, anomalies=bad, worst_sigma=round(worst, 2),
                                  identical_consecutive=same, expected_collision_probability=pc_txt))
                if bad or worst > 6 or not coll_ok:
                    viol.append(("stat", "fresh-thread trials (one reservoir per spawned thread, real RNG): position frequencies deviate from "
                                 "cap/n by %.1f sigma, %d of %d consecutive trials had identical slot contents (expected probability %s), "
                                 "%d anomalies: the per-thread generators are not independent or not uniform" % (worst, same, pairs, pc_txt, bad),
                                 dict(cap=cap, n=n, trials=ftrials, counts=counts, expected=ftrials * p, identical_consecutive=same)))
        ctx["coverage"]["fresh_thread_trials"] = frows
        # free-running stress: real threads, no scheduler callback, real RNG; pushers || a consumer that
        # keeps draining.  Judged in the driver: only what holds even inside the open late-push class
        # (never more than cap / len() values per drain, every yielded value was pushed at some time
        # (or is the never-written initial 0.0 a late push exposes: counted, not judged), sample_rate in
        # (0,1], no panic) and, after join + flushing both sides, a quiescent cycle behaves sequentially.
        per = 100000 if ctx["tier"] == "quick" else 1000000
        sconfs = [(0, 2, per // 4), (1, 3, per), (2, 3, per), (8, 2, per), (DEFAULT_CAP, 3, per)]
        rc, outs, err = run_impl(ctx["binpath"], ["X %d %d %d 100 |" % c for c in sconfs], timeout=900)
        srows = []
        if rc != 0 or len(outs) != len(sconfs):
            viol.append(("stress", "free-running stress did not complete (panic/abort in the reservoir?): rc=%s %s" % (rc, err[-500:]),
                         dict(no_failing_input=True)))
        else:
            for (cap, pushers, per_), line in zip(sconfs, outs):
                kv = dict(t.split("=", 1) for t in line.split()[1:])
                srows.append(dict(cap=cap, pushers=pushers, pushes_each=per_, **kv))
                if kv["panics"] != "0" or kv["bad"] != "-":
                    viol.append(("stress", "free-running pushers || consumer: %s (panics=%s)" % (kv["bad"], kv["panics"]),
                                 dict(cap=cap, pushers=pushers, pushes_each=per_, observed=kv)))
        ctx["coverage"]["free_running_stress"] = srows
        return viol

    # ------------------------------------------------------------------ bookkeeping
    def signature(self, c, o):
        if o["mode"] == "T":
            sites = [s_ for _, s_ in o["trace"]]
            if 1602 not in sites or 1606 not in sites:
                return None
            return [c["cap"], [[o_[0] for o_ in p] for p in c["progs"]], o["trace"]]
        toks = o["obs"]
        if not any(t[0] == "c" for t in toks):
            return None
        # shape: capacity, per-op kind with draw bound / drained length (values abstracted away)
        return [c["cap"], [(t[0], t[1] if t[0] in "dp" else (t[2], len(t[3])) if t[0] == "c" else None) for t in toks],
                [o_[2] % (c["cap"] + 2) if o_[0] == "P" else -1 for o_ in c["ops"]]]

    def shrink(self, c):
        if c["mode"] == "T":
            out = []
            sc = c["sched"]
            for i in range(len(sc)):
                out.append(dict(c, sched=sc[:i] + sc[i + 1:]))
            for t, p in enumerate(c["progs"]):
                for i in range(len(p)):
                    q = [list(x) for x in c["progs"]]
                    del q[t][i]
                    out.append(dict(c, progs=q))
            if c["cap"] > 0:
                out.append(dict(c, cap=c["cap"] - 1))
            return out
        ops = c["ops"]
        out = []
        for i in range(len(ops)):
            out.append(dict(c, ops=ops[:i] + ops[i + 1:]))
        if c["cap"] > 0:
            out.append(dict(c, cap=c["cap"] - 1))
            if c["cap"] > 8:
                out.append(dict(c, cap=8))
        for i, o in enumerate(ops):
            if o[0] == "P" and o[2] > 0:
                out.append(dict(c, ops=ops[:i] + [["P", o[1], 0]] + ops[i + 1:]))
                out.append(dict(c, ops=ops[:i] + [["P", o[1], o[2] - 1]] + ops[i + 1:]))
            if o[0] == "C" and o[1] is not None:
                out.append(dict(c, ops=ops[:i] + [["C", None]] + ops[i + 1:]))
        return out


PROP = C16()
