"""C04 — counter / gauge / histogram handles over AtomicU64: sequential differential cases against the Coq
model (bit-exact, NaN results as "is NaN"), IntoF64 conversions against an independent computation,
and free-running stress + barrier-released rounds on shared handle clones judged by the closed forms the theorems justify."""
import struct

from . import core
from .core import Prop, cq_N, cq_Z, cq_list, cq_bool

M64 = (1 << 64) - 1
ROUTES = "tahcfxn"
ROUTE_COQ = {"t": "RTrait", "a": "RArc", "h": "RHandle", "c": "RClone", "f": "RFrom", "x": "RArcArc", "n": "RNoop"}
KIND_COQ = {"i": "KInc", "d": "KDec", "s": "KSet"}
INT_TYPES = {"b": (-128, 127), "B": (0, 255), "w": (-32768, 32767), "W": (0, 65535),
             "l": (-(1 << 31), (1 << 31) - 1), "L": (0, (1 << 32) - 1)}

U64_POOL = [0, 1, 2, 3, 7, 255, 1 << 32, (1 << 63) - 1, 1 << 63, (1 << 63) + 1, M64 - 1, M64]


def f2b(x):
    return struct.unpack(">Q", struct.pack(">d", x))[0]


F64_POOL = [
    0x0000000000000000, 0x8000000000000000,                      # +0 -0
    0x3FF0000000000000, 0xBFF0000000000000, 0x4000000000000000,  # 1 -1 2
    0x3FE0000000000000, 0x3FB999999999999A, 0x3FD3333333333333,  # 0.5 0.1 0.3
    0x7FEFFFFFFFFFFFFF, 0xFFEFFFFFFFFFFFFF,                      # +-MAX
    0x0000000000000001, 0x8000000000000001, 0x000FFFFFFFFFFFFF,  # subnormals
    0x0010000000000000, 0x8010000000000000, 0x0010000000000001,  # smallest normals
    0x7FF0000000000000, 0xFFF0000000000000,                      # +-inf
    0x7FF8000000000000, 0xFFF8000000000000, 0x7FF0000000000001,  # qNaN, -qNaN, sNaN
    0x7FF8000000000123, 0xFFF4000000000000, 0x7FFFFFFFFFFFFFFF,  # NaN payloads
    0x4340000000000000, 0x433FFFFFFFFFFFFF, 0x4340000000000001,  # 2^53, 2^53-1, 2^53+2
    0x3CB0000000000000, 0x7FE0000000000000, 0x4330000000000000,  # eps, MAX/2, 2^52
]


def is_nan(b):
    return (b >> 52) & 0x7FF == 0x7FF and (b & ((1 << 52) - 1)) != 0


def rand_u64(rng):
    return rng.weighted([(5, rng.pick(U64_POOL)), (3, rng.below(100)), (2, rng.next()),
                         (1, M64 - rng.below(50)), (1, (1 << 63) + rng.below(5) - 2)])


def rand_f64(rng):
    k = rng.below(10)
    if k < 4:
        return rng.pick(F64_POOL)
    if k < 6:
        return f2b(float(rng.range(0, 2000) - 1000))
    if k == 6:
        return f2b((rng.range(0, 2000000) - 1000000) / 1024.0 * (10.0 ** (rng.below(7) - 3)))
    if k == 7:   # near a pool value: same exponent range, random low bits (rounding cases)
        return (rng.pick(F64_POOL) & 0xFFF0000000000000) | (rng.next() & ((1 << 52) - 1) if rng.chance(1, 2) else rng.below(8))
    if k == 8:   # subnormal / tiny
        return (rng.below(2) << 63) | rng.below(1 << 20) << rng.below(33)
    return rng.next()


def rand_arg(rng):
    if rng.chance(3, 4):
        return ["f", rand_f64(rng)]
    t = rng.pick(sorted(INT_TYPES))
    lo, hi = INT_TYPES[t]
    z = rng.weighted([(3, lo), (3, hi), (2, 0), (1, lo + 1), (1, hi - 1), (2, rng.range(lo, hi)),
                      (2, max(lo, min(hi, rng.range(-3, 3))))])
    return [t, z]


def rand_route(rng):
    return rng.weighted([(3, "t"), (3, "a"), (4, "h"), (4, "c"), (3, "f"), (3, "x"), (2, "n")])


def ok_many(d, route, n):
    """can the real code run record_many(v, n) in bounded time?  D2 logs one event when the call reaches
    its own record_many (routes t h c f); everything else loops n times."""
    return n <= 1000 or route == "n" or (d == 2 and route in "thcf")


class C04(Prop):
    pid = "C04"
    pkg = "hcore"
    binname = "c04"
    quick_cases = 2500
    thorough_cases = 60000
    shard = 300
    design_ref = "DESIGN.md 4 C04"
    technique = ("Coq proof: interleaving machine with one step per atomic access of the AtomicU64 (fetch_add, fetch_max, swap, "
                 "load/CAS of fetch_update with arbitrary spurious failures), invariants preserved by every step hence every schedule, "
                 "generic over the f64 arithmetic; sequential differential correspondence (bit patterns, per-call watchdog) + free-running stress and barrier-released rounds on the real handles")
    level_text = ("Theorems (Coq, any number of threads, any per-thread programs, every schedule, every spurious-CAS-failure script, every "
                  "implementation of f64 +/-): increments only => cell + pending = initial + all (mod 2^64) at every step and cell = sum mod 2^64 "
                  "when all are done; absolutes only => the cell never decreases along any execution and ends at max(initial, all arguments); "
                  "any mix of operations => the successful writes form a linearisation (each write = its operation applied to the value left by the "
                  "previous write, the cell is the fold of the log, thread u's log entries are exactly its completed calls in program order, a set "
                  "leaves exactly its value, at the end the log is a merge of all programs); record_many(v,n) delivers v exactly n times and record "
                  "once through every route incl. the Arc<T> forwarding impl; no-op handles perform no access; the model has no Panic and no Hang outcome and every call of a thread left alone returns within an explicit number of its own steps for "
                  "every finite spurious-failure script (panics of the real code, and calls of the real code that do not return, are caught by the driver "
                  "as outcomes P / H and fail the case, per run). The model is tied to "
                  "/repo by running the real trait impls and handles (from_arc, clone, From<Arc>, Arc<Arc>, noop) and the model on the same call "
                  "sequences each run, by checking IntoF64 against an independent computation, by free-running multi-threaded stress runs whose final values "
                  "must equal the schedule-independent closed forms the theorems give, and by barrier-released rounds whose per-round end values must lie "
                  "in the set of linearisable outcomes (computed by the python oracle, not in Coq).")
    level_note = ("No yield point can be placed inside std's fetch_update / fetch_add, so there is no schedule replay: the concurrent theorems "
                  "rest on the assumption that AtomicU64's fetch_add, fetch_max, swap, load and compare_exchange_weak are single atomic accesses "
                  "(sequentially consistent interleaving; Release/AcqRel/Relaxed annotations not modelled) and that fetch_update is the documented "
                  "load/CAS loop; the stress engines test the consequence on the real code but cannot enumerate schedules: (i) free-running threads on shared clones "
                  "(sum / max / integer gauge sum / deliveries closed forms) and (ii) barrier-released ROUNDS (4-8 threads released together by a spin "
                  "barrier, thousands of rounds, a monitor thread sampling the storage): absolute-only rounds with distinct values above the current one "
                  "(round must end at the largest, monitor never sees a decrease), increments racing absolutes at or just above the current value "
                  "(no increment may be overwritten), gauge increments/decrements released together (exact sum) and set racing increments of distinct "
                  "powers of two (final = set value + a subset). A check-then-act split of an atomic RMW is caught by (ii) with high probability on a "
                  "multi-core machine, not with certainty; on a single core the rounds would rarely overlap (coverage reports rounds_with_observable_overlap). "
                  "Hang detection is a resource bound, not a proof of non-termination: the driver runs the calls in a child process and reports H when "
                  "the child has used 1 s of CPU time (0.05 s after three hangs in the same run; 300 s wall backstop) since a call was handed over without "
                  "answering - a call needs microseconds of CPU, and CPU time does not grow while the machine is merely overloaded; the stress engines "
                  "report a hang when NO thread makes progress for 10 s of wall time (3 s after a first hang). Under interference the CAS loop is "
                  "lock-free, not wait-free; the termination theorem is for a thread left alone. "
                  "NaN: Coq's primitive floats have one NaN, so the RESULT of gauge arithmetic is compared as 'is NaN' (payload/sign of a produced "
                  "NaN unspecified); `set` and all non-NaN results are bit-exact, NaN operands (all payloads) are in the generator. f32 and "
                  "Duration conversions are compared with an independent python computation, not modelled in Coq; the integer IntoF64 impls are "
                  "modelled as exact embeddings. 32-bit targets (portable_atomic) are out of scope.")
    assumptions = [
        "std AtomicU64 fetch_add/fetch_max/swap/load/compare_exchange_weak are single atomic accesses; fetch_update is the load + CAS-retry loop of its documentation (spurious failures allowed)",
        "SC interleaving memory model (orderings not modelled)",
        "results of f64 +/- that are NaN are compared as 'is NaN' only (normalised to the canonical quiet NaN on both sides); everything else bit-exact",
        "stress gauges use integer-valued increments with all partial sums below 2^53 (exact, commutative in binary64), so the expected final value is schedule-independent",
        "64-bit target (std AtomicU64, usize = u64)",
        "a call that has consumed 1 s of CPU time in the driver's child process without returning (or 300 s of wall time), or a stress run in which no thread progresses for 10 s, is reported as not returning",
    ]
    trusted_extra = [
        "Coq primitive floats (kernel/VM native binary64 add/sub) and the SpecFloat conversions Prim2SF/SF2Prim (stdlib, no axioms used)",
        "python oracle of the stress, rounds and conversion checks (vlib/c04.py: closed forms sum mod 2^64 / max / integer sum, per-round sets of linearisable outcomes; f32->f64 widening and Duration::as_secs_f64 recomputed with integer arithmetic and python floats)",
        "std::sync::atomic::AtomicU64 and Arc (exercised, the atomics modelled per access)",
    ]
    rule = ("cases = sequential call sequences (1..14 calls) on one Arc<AtomicU64> and two logging HistogramFn doubles, through 7 routes (trait on the "
            "storage, trait on Arc<T>, handle, clone, From<Arc>, Arc<Arc>, noop); counter cases (increment/absolute with 0,1,2^63+-1,u64::MAX, wrap-around), "
            "gauge cases (increment/decrement/set/GaugeValue::update_value with +-0, +-inf, NaN payloads incl. signalling, subnormals, +-MAX, 2^53+-1, random "
            "bits, integer-typed arguments at their extremes; a directed family of increments/decrements that leave the stored bits unchanged: +-0.0 deltas, "
            "deltas below half an ulp of a large value, any delta on +-inf, on NaN, set of the value already held and set of -0.0 over +0.0 / +0.0 over -0.0), histogram cases (record, record_many with counts 0..1000 swept once each plus usize::MAX where "
            "the call is O(1)), mixed counter+set cases; a case is non-trivial if at least two calls reach the storage or a record_many has count >= 2; "
            "distinct = distinct (case, outputs)")

    # ------------------------------------------------------------------ generator
    def gen_counter(self, rng):
        ops = []
        for _ in range(rng.range(1, 14)):
            ops.append(["C", rand_route(rng), "a" if rng.chance(2, 5) else "i", rand_u64(rng)])
        return dict(init=rand_u64(rng), ops=ops)

    def gen_gauge(self, rng):
        ops = []
        for _ in range(rng.range(1, 14)):
            if rng.chance(1, 8):
                ops.append(["U", rng.pick("ids"), rand_arg(rng)])
            else:
                ops.append(["G", rand_route(rng), rng.weighted([(4, "i"), (4, "d"), (2, "s")]), rand_arg(rng)])
        return dict(init=rand_f64(rng), ops=ops)

    # (held value, delta) pairs for which held +/- delta has the bits of held: zero deltas, deltas below half an
    # ulp, anything on +-inf, anything on NaN (up to the payload); and `set` of the value already held
    ABSORB = [(0x7E37E43C8800759C, 0x3FF0000000000000),   # 1e300 +- 1.0
              (0x4340000000000000, 0x3FE0000000000000),   # 2^53 +- 0.5 (tie to even)
              (0x3FF0000000000000, 0x0000000000000001),   # 1.0 +- min subnormal
              (0x7FEFFFFFFFFFFFFF, 0x4330000000000000),   # MAX +- 2^52
              (0x7FF0000000000000, 0x4014000000000000),   # +inf +- 5.0
              (0xFFF0000000000000, 0x7FEFFFFFFFFFFFFF),   # -inf +- MAX
              (0x7FF8000000000000, 0x3FF0000000000000),   # NaN +- 1.0
              (0xFFF8000000000000, 0x0000000000000000),   # -NaN +- 0.0
              (0x4059000000000000, 0x0000000000000000),   # 100.0 +- 0.0
              (0x4059000000000000, 0x8000000000000000),   # 100.0 +- -0.0
              (0x0000000000000000, 0x0000000000000000),   # 0.0 +- 0.0
              (0x8000000000000000, 0x8000000000000000)]   # -0.0 +- -0.0

    def absorb_case(self, k, route, kind, via_init):
        held, delta = self.ABSORB[k % len(self.ABSORB)]
        if kind == "s":
            # set of the value already held; for even k: set of the OTHER zero (equal as f64, different bits)
            a, b = (held, held) if k % 2 else ((0, 1 << 63) if k % 4 == 0 else (1 << 63, 0))
            ops = [["G", route, "s", ["f", a]], ["G", route, "s", ["f", b]], ["G", "t", "s", ["f", a]]]
            return dict(init=a if via_init else 0x3FF8000000000000, ops=ops[1:] if via_init else ops)
        op = ["G", route, kind, ["f", delta]]
        if via_init:
            return dict(init=held, ops=[op, ["G", "t", "i", ["f", 0x3FF0000000000000]]])
        return dict(init=0x4000000000000000, ops=[["G", "h", "s", ["f", held]], op, ["G", "t", "d", ["f", 0x3FF0000000000000]]])

    def gen_absorb(self, rng):
        c = self.absorb_case(rng.below(len(self.ABSORB)), rng.pick("tahcfx"), rng.weighted([(4, "i"), (4, "d"), (2, "s")]), rng.chance(1, 2))
        for _ in range(rng.below(4)):      # and something after it
            c["ops"].append(["G", rand_route(rng), rng.pick("ids"), rand_arg(rng)])
        return c

    def directed(self):
        """one absorbed increment and one absorbed decrement per (held, delta) pair, routes rotating"""
        cases = []
        for k in range(len(self.ABSORB)):
            cases.append(self.absorb_case(k, "tahcfx"[k % 6], "i", k % 2 == 0))
            cases.append(self.absorb_case(k, "tahcfx"[(k + 3) % 6], "d", k % 2 == 1))
        for k, route in enumerate("hctafx" + "ht"):
            cases.append(self.absorb_case(k, route, "s", k % 3 == 0))
        return cases

    def gen_hist(self, rng):
        ops = []
        for _ in range(rng.range(1, 8)):
            d = rng.range(1, 2)
            route = rand_route(rng)
            if rng.chance(1, 3):
                ops.append(["R", d, route, rand_arg(rng)])
            else:
                n = rng.weighted([(3, 0), (3, 1), (3, 2), (4, rng.below(12)), (2, rng.below(1001)), (1, 1000), (1, M64), (1, 1 << 32)])
                if not ok_many(d, route, n):
                    n = n % 1001
                ops.append(["M", d, route, rand_arg(rng), n])
        return dict(init=rand_u64(rng), ops=ops)

    def gen_mixed(self, rng):
        # counter calls and gauge `set` on the same AtomicU64 (no float arithmetic: bit-exact throughout)
        ops = []
        for _ in range(rng.range(2, 12)):
            k = rng.below(4)
            if k == 0:
                ops.append(["G", rand_route(rng), "s", rand_arg(rng)])
            elif k == 1:
                ops.append(["R", rng.range(1, 2), rand_route(rng), rand_arg(rng)])
            else:
                ops.append(["C", rand_route(rng), "a" if rng.chance(2, 5) else "i", rand_u64(rng)])
        return dict(init=rand_u64(rng), ops=ops)

    def sweep(self):
        """record_many with every count 0..1000 once, cycling doubles, routes and argument types"""
        cases, ops = [], []
        routes = "tahcfx"
        for n in range(1001):
            d = 1 + (n // 3) % 2
            route = routes[n % 6]
            arg = [["f", F64_POOL[n % len(F64_POOL)]], ["l", n - 500], ["B", n % 256]][n % 3]
            ops.append(["M", d, route, arg, n])
            if len(ops) == 8:
                cases.append(dict(init=n, ops=ops))
                ops = []
        if ops:
            cases.append(dict(init=0, ops=ops))
        return cases

    def gen(self, rng, n):
        cases = self.directed() + (self.sweep() if n >= 1000 else self.sweep()[::8])
        while len(cases) < n:
            k = rng.below(20)
            if k < 8:
                cases.append(self.gen_absorb(rng) if rng.chance(1, 6) else self.gen_gauge(rng))
            elif k < 15:
                cases.append(self.gen_counter(rng))
            elif k < 18:
                cases.append(self.gen_hist(rng))
            else:
                cases.append(self.gen_mixed(rng))
        return cases[:max(n, 1)]

    # ------------------------------------------------------------------ encodings
    @staticmethod
    def arg_tok(a):
        return "%s%d" % (a[0], a[1])

    def impl_line(self, c):
        toks = []
        for o in c["ops"]:
            if o[0] == "C":
                toks.append("C%s%s:%d" % (o[1], o[2], o[3]))
            elif o[0] == "G":
                toks.append("G%s%s:%s" % (o[1], o[2], self.arg_tok(o[3])))
            elif o[0] == "U":
                toks.append("U%s:%s" % (o[1], self.arg_tok(o[2])))
            elif o[0] == "R":
                toks.append("R%d%s:%s" % (o[1], o[2], self.arg_tok(o[3])))
            else:
                toks.append("M%d%s:%s:%d" % (o[1], o[2], self.arg_tok(o[3]), o[4]))
        return "Q %d | %s" % (c["init"], " ".join(toks))

    def parse_out(self, c, line):
        out = []
        if line.strip() == "-":
            return out
        for t in line.split():
            if t == "P":
                out.append(["P"])
            elif t == "H":
                out.append(["H"])            # the call did not return (driver watchdog); nothing follows it
            elif t[0] in "cv":
                out.append([t[0], int(t[1:])])
            elif t == "h-":
                out.append(["h", []])
            else:
                runs = []
                for r in t[1:].split(","):
                    body, k = r.split("*")
                    if body[0] == "r":
                        runs.append(["r", int(body[1:]), int(k)])
                    else:
                        v, n = body[1:].split("/")
                        runs.append(["m", int(v), int(n), int(k)])
                out.append(["h", runs])
        return out

    @staticmethod
    def coq_arg(a):
        return "(AF64 %s)" % cq_N(a[1]) if a[0] == "f" else "(AInt %s)" % cq_Z(a[1])

    def coq_case(self, c):
        ops = []
        for o in c["ops"]:
            if o[0] == "C":
                ops.append("SCounter %s %s %s" % (ROUTE_COQ[o[1]], cq_bool(o[2] == "a"), cq_N(o[3])))
            elif o[0] == "G":
                ops.append("SGauge %s %s %s" % (ROUTE_COQ[o[1]], KIND_COQ[o[2]], self.coq_arg(o[3])))
            elif o[0] == "U":
                ops.append("SUpdate %s %s" % (KIND_COQ[o[1]], self.coq_arg(o[2])))
            elif o[0] == "R":
                ops.append("SRecord D%d %s %s" % (o[1], ROUTE_COQ[o[2]], self.coq_arg(o[3])))
            else:
                ops.append("SRecordMany D%d %s %s %s" % (o[1], ROUTE_COQ[o[2]], self.coq_arg(o[3]), cq_N(o[4])))
        return "(%s, %s)" % (cq_N(c["init"]), cq_list(ops))

    def coq_out(self, c, out):
        xs = []
        for o in out:
            if o[0] == "P":
                xs.append("OPanic")
            elif o[0] == "H":
                xs.append("OHang")
            elif o[0] == "c":
                xs.append("OCell %s" % cq_N(o[1]))
            elif o[0] == "v":
                xs.append("OVal %s" % cq_N(o[1]))
            else:
                runs = []
                for r in o[1]:
                    if r[0] == "r":
                        runs.append("(ERec %s, %s)" % (cq_N(r[1]), cq_N(r[2])))
                    else:
                        runs.append("(EMany %s %s, %s)" % (cq_N(r[1]), cq_N(r[2]), cq_N(r[3])))
                xs.append("OHist %s" % cq_list(runs))
        return cq_list(xs)

    def signature(self, c, out):
        touching = sum(1 for o in c["ops"] if o[0] in "CG" and o[1] != "n")
        many = any(o[0] == "M" and o[4] >= 2 and o[2] != "n" for o in c["ops"])
        if touching < 2 and not many:
            return None
        return [c, out]

    def shrink(self, c):
        ops = c["ops"]
        cands = []
        for i in range(len(ops)):
            cands.append(dict(c, ops=ops[:i] + ops[i + 1:]))
        if c["init"] not in (0, 1):
            cands.append(dict(c, init=0))
            cands.append(dict(c, init=1))
        for i, o in enumerate(ops):
            def rep(new):
                cands.append(dict(c, ops=ops[:i] + [new] + ops[i + 1:]))
            if o[0] == "C" and o[3] > 1:
                rep(["C", o[1], o[2], 1])
            if o[0] == "M" and o[4] > 0:
                rep(["M", o[1], o[2], o[3], o[4] // 2])
                rep(["M", o[1], o[2], o[3], o[4] - 1])
            if o[0] in "CG" and o[1] not in "tn":
                rep([o[0], "t"] + o[2:])
            ai = {"G": 3, "U": 2, "R": 3, "M": 3}.get(o[0])
            if ai is not None and o[ai] != ["f", 0x3FF0000000000000]:
                rep(o[:ai] + [["f", 0x3FF0000000000000]] + o[ai + 1:])
        return cands

    # ------------------------------------------------------------------ further engines
    @staticmethod
    def widen_f32(b):
        """f32 bits -> f64 bits, integer arithmetic only (IEEE widening; a NaN is quieted, payload kept)"""
        s, e, m = b >> 31, (b >> 23) & 0xFF, b & 0x7FFFFF
        if e == 0xFF:
            return (s << 63) | (0x7FF << 52) | ((m << 29) | (1 << 51) if m else 0)
        if e == 0:
            if m == 0:
                return s << 63
            k = m.bit_length() - 1                       # value = m * 2^-149 = 1.x * 2^(k-149)
            return (s << 63) | ((k - 149 + 1023) << 52) | ((m << (52 - k)) & ((1 << 52) - 1))
        return (s << 63) | ((e - 127 + 1023) << 52) | (m << 29)

    def conv_lines(self, rng, extra):
        items = []
        for t, name in (("b", "i8"), ("B", "u8"), ("w", "i16"), ("W", "u16"), ("l", "i32"), ("L", "u32")):
            lo, hi = INT_TYPES[t]
            vals = {lo, lo + 1, -1, 0, 1, hi - 1, hi} | {rng.range(lo, hi) for _ in range(extra)}
            for z in sorted(v for v in vals if lo <= v <= hi):
                items.append(("F %s %d" % (name, z), f2b(float(z)), False))
        f32s = [0, 0x80000000, 1, 0x007FFFFF, 0x00800000, 0x80000001, 0x3F800000, 0xBF800000, 0x7F7FFFFF, 0xFF7FFFFF,
                0x7F800000, 0xFF800000, 0x7FC00000, 0xFFC00000, 0x7F800001, 0x7FC00001, 0xFFFFFFFF, 0x3DCCCCCD, 0x00000100]
        f32s += [rng.next() & 0xFFFFFFFF for _ in range(extra * 4)] + [rng.below(1 << 23) for _ in range(extra)]
        for b in f32s:
            items.append(("F f32 %d" % b, self.widen_f32(b), False))
        for b in F64_POOL + [rng.next() for _ in range(extra * 2)]:
            items.append(("F f64 %d" % b, b, False))
        durs = [(0, 0), (0, 1), (0, 999999999), (1, 0), (1, 500000000), (M64, 0), (M64, 999999999), (1 << 53, 1), ((1 << 53) + 1, 0),
                (3, 141592653), (1 << 63, 500000000)]
        durs += [(rng.weighted([(2, rng.below(100000)), (1, rng.next())]), rng.below(1000000000)) for _ in range(extra * 3)]
        for s, n in durs:
            # Duration::as_secs_f64 = (secs as f64) + (nanos as f64) / 1e9, each step correctly rounded
            items.append(("F dur %d %d" % (s, n), f2b(float(s) + float(n) / 1e9), False))
        return items

    def stress_lines(self, rng, tier):
        """-> list of (line, expectation dict)"""
        big = tier == "thorough"
        runs = []

        def threads():
            return rng.range(8, 16)

        def reps_for(plen):
            total = rng.range(10000, 100000 if big else 40000)
            return max(1, total // plen)

        routes = "hctafx"
        # counters, increments only (with wrap-around values)
        for _ in range(6 if big else 3):
            init = rand_u64(rng)
            specs, tot, nops = [], 0, 0
            for t in range(threads()):
                route = routes[t % 6] if not (t == 5 and rng.chance(1, 2)) else "n"
                pat = [rng.weighted([(3, rng.below(10)), (1, M64), (1, M64 - rng.below(9)), (1, 1 << 63), (1, rng.next())]) for _ in range(rng.range(1, 4))]
                reps = reps_for(len(pat))
                specs.append("%s:%d:%s" % (route, reps, ",".join("i%d" % v for v in pat)))
                nops += reps * len(pat)
                if route != "n":
                    tot += reps * sum(pat)
            runs.append(("S c %d | %s" % (init, " ; ".join(specs)), dict(kind="sum", final=(init + tot) & M64, ops=nops, threads=len(specs))))
        # counters, absolutes only
        for _ in range(4 if big else 2):
            init = rng.weighted([(2, 0), (1, rng.below(1000)), (1, rand_u64(rng))])
            specs, mx, nops = [], init, 0
            for t in range(threads()):
                route = routes[t % 6]
                base = rng.below(1 << rng.range(4, 62))
                pat = [base + rng.below(1000) for _ in range(rng.range(1, 4))]
                reps = reps_for(len(pat))
                specs.append("%s:%d:%s" % (route, reps, ",".join("a%d" % v for v in pat)))
                nops += reps * len(pat)
                mx = max([mx] + pat)
            runs.append(("S c %d | %s" % (init, " ; ".join(specs)), dict(kind="max", final=mx, ops=nops, threads=len(specs))))
        # counters, small increments and absolutes mixed, no wrap: bounds + monotone
        for _ in range(2 if big else 1):
            init = rng.below(1000)
            specs, nops, incs, mx = [], 0, 0, 0
            for t in range(threads()):
                route = routes[t % 6]
                pat = [("i", rng.below(5)) if rng.chance(2, 3) else ("a", rng.below(1 << 20)) for _ in range(rng.range(1, 4))]
                reps = reps_for(len(pat))
                specs.append("%s:%d:%s" % (route, reps, ",".join("%s%d" % p for p in pat)))
                nops += reps * len(pat)
                incs += reps * sum(v for k, v in pat if k == "i")
                mx = max([mx] + [v for k, v in pat if k == "a"])
            runs.append(("S c %d | %s" % (init, " ; ".join(specs)),
                         dict(kind="bounds", lo=max(init + incs, mx), hi=max(init, mx) + incs, ops=nops, threads=len(specs))))
        # gauges, integer-valued increments / decrements (all partial sums < 2^53)
        for _ in range(6 if big else 3):
            init = rng.range(0, 2000000) - 1000000
            specs, tot, nops = [], init, 0
            for t in range(threads()):
                route = routes[t % 6] if not (t == 4 and rng.chance(1, 2)) else "n"
                pat = [(rng.pick("id"), rng.weighted([(3, rng.below(100)), (1, rng.below(1 << 30)), (1, 0)])) for _ in range(rng.range(1, 4))]
                reps = max(1, reps_for(len(pat)) // 2)
                specs.append("%s:%d:%s" % (route, reps, ",".join("%s%d" % (k, f2b(float(v))) for k, v in pat)))
                nops += reps * len(pat)
                if route != "n":
                    tot += reps * sum(v if k == "i" else -v for k, v in pat)
            assert abs(init) + 16 * 100000 * 3 * (1 << 30) < (1 << 53)
            runs.append(("S g %d | %s" % (f2b(float(init)), " ; ".join(specs)), dict(kind="gauge", final=f2b(float(tot)), ops=nops, threads=len(specs))))
        # histograms: deliveries through record / record_many on shared clones
        for _ in range(2 if big else 1):
            v = rng.pick(F64_POOL)
            specs, deliv, nops = [], 0, 0
            for t in range(threads()):
                route = routes[t % 6] if t != 3 else "n"
                pat = [("r", 1) if rng.chance(1, 2) else ("m", rng.below(6)) for _ in range(rng.range(1, 3))]
                reps = max(1, reps_for(len(pat)) // 4)
                specs.append("%s:%d:%s" % (route, reps, ",".join(("r%d" % v) if k == "r" else ("m%d/%d" % (v, n)) for k, n in pat)))
                nops += reps * len(pat)
                if route != "n":
                    deliv += reps * sum(n for _, n in pat)
            runs.append(("S h %d | %s" % (v, " ; ".join(specs)), dict(kind="hist", delivered=deliv, ops=nops, threads=len(specs))))
        return runs

    @staticmethod
    def judge_stress(exp, got):
        """the property on an observed stress result (closed forms from C04_counter_sum_mod_2_64,
        C04_absolute_monotone, C04_gauge_linearizable + exact integer arithmetic, C04_record_many_exact)"""
        if got.get("died"):
            return "the driver's worker process died during the run"
        if got.get("hang"):
            return ("a handle operation did not return: %d thread(s) still inside a call after no thread made progress for the stall limit"
                    % got["hang"])
        if got["panics"] != 0:
            return "a handle operation panicked"
        k = exp["kind"]
        if k == "sum" and got["final"] != exp["final"]:
            return "counter does not end at the sum of its increments modulo 2^64"
        if k == "max":
            if got["final"] != exp["final"]:
                return "absolute-only counter does not end at the maximum"
            if got["nonmonotone"] != 0:
                return "counter observed to decrease under absolute updates"
        if k == "bounds":
            if not (exp["lo"] <= got["final"] <= exp["hi"]):
                return "counter under increments+absolutes ends outside [max(init+sum, max abs), max(init, max abs)+sum]"
            if got["nonmonotone"] != 0:
                return "counter observed to decrease (no wrap-around possible in this run)"
        if k == "gauge" and got["final"] != exp["final"]:
            return "gauge does not end at initial + sum of its integer-valued increments/decrements (an update was lost or applied twice)"
        if k == "hist" and (got["delivered"] != exp["delivered"] or got["badvalue"] != 0):
            return "histogram double did not receive exactly the recorded values"
        return None

    # barrier-released rounds (driver mode R): parameters -> line, and the judgement of the per-round end values
    @staticmethod
    def rounds_lines(rng, tier):
        big = tier == "thorough"
        n = 6000 if big else 2500
        runs = []
        for kind in "amg":
            for _ in range(2 if big else 1):
                T = rng.range(4, 8)
                if kind == "a":
                    start, p = rng.below(1000), T + rng.range(1, 20)
                elif kind == "m":
                    start, p = 1000 + rng.below(1000), rng.range(2, 6)
                else:
                    start, p = rng.below(1000), rng.range(1, 4)
                runs.append(dict(kind=kind, T=T, rounds=n, start=start, p=p, line="R %s %d %d %d %d" % (kind, T, n, start, p)))
        return runs

    @staticmethod
    def b2f(b):
        return struct.unpack(">d", struct.pack(">Q", b))[0]

    def judge_rounds(self, run, got):
        """-> (reason | None, number of rounds in which the calls demonstrably overlapped)"""
        kind, T, start, p = run["kind"], run["T"], run["start"], run["p"]
        ends = got["ends"]
        if got.get("died"):
            return "the driver's worker process died during the run", 0
        if got.get("hang_round"):
            return "round %d did not finish: a handle operation did not return (no progress for the stall limit)" % got["hang_round"], 0
        if got["panics"] != 0:
            return "a handle operation panicked", 0
        if len(ends) != run["rounds"]:
            return "driver did not complete all rounds", 0
        why, raced = self.judge_round_ends(run, ends)
        if why is None and kind in "am" and got["nonmonotone"] != 0:
            why = "counter observed (by the monitor thread) to decrease under absolute updates / non-wrapping increments"
        return why, raced

    def judge_round_ends(self, run, ends):
        kind, T, start, p = run["kind"], run["T"], run["start"], run["p"]
        raced = 0
        s = start
        for r, e in enumerate(ends, 1):
            if kind == "a":
                # all threads publish distinct values above the current one: the round must end at the largest
                if e != start + r * p + T:
                    return "round %d: counter ended at %d, below the largest absolute value given (%d)" % (r, e, start + r * p + T), raced
            elif kind == "m":
                # p increments of k race absolutes that are <= s (no-ops) and, in odd rounds, one absolute(s+1):
                # linearisable outcomes are s + p*k (absolute after an increment: no-op) and, odd rounds, s + 1 + p*k
                k = 2 + r % 5
                okv = {s + p * k} | ({s + 1 + p * k} if r % 2 else set())
                if e not in okv:
                    return "round %d: counter went %d -> %d; increments total %d (an increment was overwritten by an absolute, or an absolute lowered the counter)" % (r, s, e, p * k), raced
                raced += 1 if (r % 2 and e == s + p * k) else 0
            else:
                x = self.b2f(e)
                if r % 2 == 0:
                    # integer-valued increments/decrements released together: exact sum
                    exp = self.b2f(s) + p * sum((i + 1 + r % 3) * (1 if (i + r) % 2 == 0 else -1) for i in range(T))
                    if x != exp:
                        return "round %d: gauge ended at %r, expected %r (an increment/decrement was lost or applied twice)" % (r, x, exp), raced
                else:
                    # set(S) races one increment of 2^i per thread i>=1: final = S + any subset of the increments
                    S = float(((r % 1000) + 1) << 20)
                    d = x - S
                    mask = (1 << T) - 2
                    if d != int(d) or d < 0 or int(d) & ~mask:
                        return "round %d: gauge ended at %r after set(%r) racing increments of 2^i: not set value + a subset of the increments" % (r, x, S), raced
                    raced += 1 if 0 < int(d) < mask else 0
            s = e
        return None, raced

    def extra_checks(self, ctx):
        viol = []
        rng = ctx["rng"].fork()
        big = ctx["tier"] == "thorough"
        # (1) IntoF64
        items = self.conv_lines(rng, 200 if big else 30)
        rc, outs, err = core.run_impl(ctx["binpath"], [l for l, _, _ in items], timeout=300)
        if rc != 0 or len(outs) != len(items):
            raise core.MachineryBroken("c04 conversion run failed: rc=%s %s" % (rc, err[-1000:]))
        bad = []
        for (line, exp, _), o in zip(items, outs):
            toks = o.split()
            if len(toks) != 3 or any(int(t) != exp for t in toks):
                bad.append(dict(line=line, expected=exp, got=o))
        if bad:
            viol.append(("conv", "IntoF64 conversion (direct / through Gauge::set / through Histogram::record) differs from the independent computation",
                         dict(first=bad[0], failures=len(bad))))
        # (2) stress
        runs = self.stress_lines(rng, ctx["tier"])
        rc, outs, err = core.run_impl(ctx["binpath"], [l for l, _ in runs], timeout=1200)
        if rc != 0 or len(outs) != len(runs):
            raise core.MachineryBroken("c04 stress run failed: rc=%s %s" % (rc, err[-1000:]))
        samples = 0
        by_kind = {}
        for (line, exp), o in zip(runs, outs):
            got = {k: int(v) for k, v in (t.split("=") for t in o.split() if "=" in t)}
            got.setdefault("hang", 0)
            for k in ("final", "panics", "samples", "nonmonotone", "delivered", "badvalue"):
                got.setdefault(k, 0)
            samples += got["samples"]
            by_kind[exp["kind"]] = by_kind.get(exp["kind"], 0) + 1
            why = self.judge_stress(exp, got)
            if why:
                viol.append(("stress", why, dict(line=line, expected=exp, got=got)))
        # (3) barrier-released rounds
        rruns = self.rounds_lines(rng, ctx["tier"])
        rc, outs, err = core.run_impl(ctx["binpath"], [r["line"] for r in rruns], timeout=600)
        if rc != 0 or len(outs) != len(rruns):
            raise core.MachineryBroken("c04 rounds run failed: rc=%s %s" % (rc, err[-1000:]))
        raced_total = 0
        for run, o in zip(rruns, outs):
            kv = dict(t.split("=", 1) for t in o.split() if "=" in t)
            got = dict(panics=int(kv.get("panics", 0)), samples=int(kv.get("samples", 0)), nonmonotone=int(kv.get("nonmonotone", 0)),
                       hang_round=int(kv.get("hang_round", 0)), died=int(kv.get("died", 0)),
                       ends=[int(v) for v in kv.get("ends", "").split(",") if v])
            samples += got["samples"]
            why, raced = self.judge_rounds(run, got)
            raced_total += raced
            if why:
                viol.append(("rounds", why, dict(line=run["line"], params={k: v for k, v in run.items() if k != "line"},
                                                 nonmonotone=got["nonmonotone"], ends_head=got["ends"][:40])))
        ctx["coverage"].update({
            "round_runs": len(rruns), "rounds_total": sum(r["rounds"] for r in rruns),
            "round_threads": sorted({r["T"] for r in rruns}),
            "rounds_with_observable_overlap": raced_total,
        })
        ctx["coverage"].update({
            "into_f64_conversions_checked": len(items),
            "stress_runs": len(runs), "stress_runs_by_kind": by_kind,
            "stress_threads_max": max(e["threads"] for _, e in runs),
            "stress_threads_min": min(e["threads"] for _, e in runs),
            "stress_ops_total": sum(e["ops"] for _, e in runs),
            "stress_ops_per_run_max": max(e["ops"] for _, e in runs),
            "stress_observer_samples": samples,
        })
        return viol[:4]


PROP = C04()
