"""C20 — RecoverableRecorder: schedule replay of emitters vs into_inner / handle drop."""
from .core import Prop, cq_N, cq_list, cq_bool


class C20(Prop):
    pid = "C20"
    pkg = "hcore"
    binname = "c20"
    quick_cases = 2500
    thorough_cases = 50000
    shard = 300
    design_ref = "DESIGN.md 4 C20"
    technique = ("Coq proof: invariants of an interleaving machine over the Arc strong count (one step per upgrade / entry / exit / "
                 "release / try_unwrap / handle drop), preserved by every step hence for every schedule; schedule-replay correspondence "
                 "on the real WeakRecorder/RecoveryHandle")
    level_text = ("Theorems (Coq, every schedule, any number of emitters and emissions, at most one owner of the handle): strong count = "
                  "handle + emissions between upgrade and release; the recorder is Live exactly while the count is positive; into_inner "
                  "succeeds only when no emission holds an upgraded reference (so nobody is inside the recorder) and returns it undropped; "
                  "after recovery or after the handle is dropped and the last in-flight emission released, every upgrade fails (inert); "
                  "no call enters the recorder once it is Taken/Finalised; drops <= 1, = 1 exactly when finalised by a release, never "
                  "when recovered. C20_spec_ok_on_model: the executable property spec_ok (all seven clauses, including the walk over "
                  "the step trace that decides for each upgrade, from the final results and the positions of the last try_unwrap / "
                  "handle-drop steps, whether it had to succeed) holds of the model's own run of every case with at most one owner, "
                  "for every schedule and the round-robin tail. Tied to /repo by replaying schedules on the real code through yield points.")
    level_note = ("SC interleaving; Arc/Weak counters are std's and are modelled as one atomic step each (upgrade, drop, try_unwrap). "
                  "Termination of the into_inner spin loop (liveness) is not claimed (runs cut off by the round-robin fuel with the owner "
                  "still spinning are covered by C20_spec_ok_on_model; their unfinished emissions are unconstrained). No partial theorem "
                  "remains: spec_ok is proved on the model in full. The install() failure path is exercised on the real "
                  "code (global recorder already set) on every run, not modelled beyond build+into_inner.")
    rule = ("1-3 emitter threads with 1-3 emissions each (cycling through the six Recorder methods), optionally one owner thread that "
            "recovers or drops the handle, random schedule + round-robin tail; in a quarter of the cases some threads run their whole program from a destructor during unwinding (the model ignores the context); non-trivial = an owner step interleaved between an "
            "emitter's upgrade and release, or an upgrade after the recovery/drop; distinct = distinct (programs, executed trace)")
    assumptions = ["SC memory model", "yield hooks placed before each Arc operation of recoverable.rs"]
    trusted_extra = ["harness/sched deterministic scheduler", "std Arc/Weak (exercised, modelled as a counter)"]

    def gen(self, rng, n):
        cases = []
        for _ in range(n):
            ne = rng.range(1, 3)
            progs = ["E%d" % rng.range(1, 3) for _ in range(ne)]
            owner = rng.weighted([(5, "R"), (4, "D"), (1, None)])
            if owner:
                progs.insert(rng.below(len(progs) + 1), owner)
            nt = len(progs)
            total = sum(2 + 4 * int(p[1:]) if p[0] == "E" else 3 for p in progs)
            # calling context: a thread's whole program may run from a destructor during unwinding
            # (prefix u); the model ignores the prefix, so the context must not change anything
            if rng.chance(1, 4):
                progs = [("u" + p) if rng.chance(1, 2) else p for p in progs]
            L = rng.range(0, total + 6)
            style = rng.below(3)
            sched = []
            for _ in range(L):
                if style == 1 and sched and rng.chance(2, 3):
                    sched.append(sched[-1])
                else:
                    sched.append(rng.below(nt + (1 if style == 2 else 0)))
            cases.append(dict(progs=progs, sched=sched))
        return cases

    def impl_line(self, c):
        return "%s ; %s" % ("|".join(c["progs"]), " ".join(map(str, c["sched"])))

    def parse_out(self, c, line):
        tr, rs, done, drops, late = [x.strip() for x in line.split(";")]
        trace = [[int(a), int(b)] for a, b in (x.split(":") for x in tr.split())]
        res = [[t for t in p.split(",") if t] for p in rs.split("|")]
        return dict(trace=trace, res=res, done=int(done), drops=int(drops), late=int(late))

    def coq_case(self, c):
        def prog(p):
            p = p.lstrip("u")
            if p == "R":
                return "PRecover"
            if p == "D":
                return "PDropHandle"
            return "PEmit %d" % int(p[1:])
        return "(%s, %s)" % (cq_list([prog(p) for p in c["progs"]]), cq_list([cq_N(t) for t in c["sched"]]))

    def coq_out(self, c, o):
        def res(t):
            if t == "X":
                return "RReached"
            if t == "I":
                return "RInert"
            if t == "H":
                return "RHandleDropped"
            if t == "M":      # reached the recorder through the wrong method: not an outcome of the model; fails the spec walk
                return "RRecovered 4294967295 4294967295"
            i, d = t[1:].split(":")
            return "RRecovered %s %s" % (cq_N(int(i)), cq_N(int(d)))
        return "(%s, %s, %s, %s, %s)" % (
            cq_list(["(%s, %s)" % (cq_N(a), cq_N(b)) for a, b in o["trace"]]),
            cq_list([cq_list([res(t) for t in p]) for p in o["res"]]),
            cq_bool(o["done"]), cq_N(o["drops"]), cq_bool(o["late"]))

    def signature(self, c, o):
        tr = o["trace"]
        owner_sites = [i for i, (_, s) in enumerate(tr) if s in (2004, 2005)]
        if not owner_sites:
            return None
        ups = [i for i, (_, s) in enumerate(tr) if s == 2001]
        if not any(u > min(owner_sites) for u in ups):
            return None
        return [c["progs"], tr]

    def shrink(self, c):
        out = []
        s = c["sched"]
        for i in range(len(s)):
            out.append(dict(c, sched=s[:i] + s[i + 1:]))
        for i, p in enumerate(c["progs"]):
            if p[0] == "u":
                q = list(c["progs"]); q[i] = p[1:]
                out.append(dict(c, progs=q))
            b = p.lstrip("u")
            if b[0] == "E" and int(b[1:]) > 1:
                q = list(c["progs"]); q[i] = p[:len(p) - len(b)] + "E%d" % (int(b[1:]) - 1)
                out.append(dict(c, progs=q))
        return out

    def extra_checks(self, ctx):
        from .core import run_impl
        rc, outs, err = run_impl(ctx["binpath"], ["INSTALL-FAILURE"])
        ctx["coverage"]["install_failure_path"] = outs[0] if outs else "no output"
        if rc != 0 or not outs or outs[0] != "install-err intact=true drops_after=1":
            return [("install", "RecoverableRecorder::install with a global recorder already set did not hand the original recorder back intact",
                     dict(observed=outs, stderr=err[-500:]))]
        g = self.global_engine(ctx)
        if g:
            return g
        # free-running stress (no scheduler): catches changes whose new shared accesses have no yield point
        rounds = 40 if ctx["tier"] == "quick" else 400
        lines = ["STRESS %d %d %s" % (2 + i % 5, 4000 + 1000 * (i % 7), "RD"[i % 2]) for i in range(rounds)]
        rc, outs, err = run_impl(ctx["binpath"], lines, timeout=900)
        ctx["coverage"]["stress_rounds"] = rounds
        ctx["coverage"]["stress_results"] = outs[:2]
        fails = [o for o in outs if not o.startswith("stress ok")]
        if rc != 0 or len(outs) != rounds or fails:
            return [("stress", "free-running stress of RecoverableRecorder violated the property: " + (fails[0] if fails else "driver failed: " + err[-300:]),
                     dict(command="echo 'STRESS 4 400 R' | .cache/target/release/c20", observed=fails[:5]))]
        return []

    def global_engine(self, ctx):
        """RecoverableRecorder::install end to end on the REAL global recorder, one script per
        process: installs (the first succeeds, every later one must fail handing its own recorder
        back intact and must not disturb the live one), emissions through the global recorder on
        the main and on fresh threads, then into_inner or handle drop.  Judged by the property:
        live until recovered / dropped (right recorder, right method), inert afterwards, the
        recovered recorder undropped, a dropped handle drops the recorder exactly once."""
        from .core import run_impl
        rng = ctx["rng"].fork()
        n = 12 if ctx["tier"] == "quick" else 100
        scripts = [["E", "I1", "E", "F", "I2", "E", "J3", "F", "E", "R", "E", "F", "I4", "E"],
                   ["F", "J1", "F", "E", "I2", "F", "H", "E", "F", "J3", "E"]]
        for _ in range(n - len(scripts)):
            ops, r = [], 1
            for _ in range(rng.range(1, 3)):
                ops.append(rng.pick("EF"))
            for _ in range(rng.range(4, 12)):
                if rng.chance(1, 3):
                    ops.append("%s%d" % (rng.pick("IJ"), r)); r += 1
                else:
                    ops.append(rng.pick("EF"))
            if rng.chance(4, 5):
                ops.append(rng.pick("RH"))
                for _ in range(rng.range(1, 4)):
                    ops.append(rng.pick(["E", "F", "I%d" % r])); r += 1
            scripts.append(ops)
        bad = []
        for ops in scripts:
            rc, outs, err = run_impl(ctx["binpath"], ["GLOBAL " + " ".join(ops)], timeout=120)
            toks = outs[0].split() if outs else []
            live, ended, problem = None, False, None
            if rc != 0 or len(toks) != len(ops):
                problem = "driver failed: rc=%s %s" % (rc, err[-300:])
            for op, t in zip(ops, toks):
                if problem:
                    break
                if op[0] in "IJ":
                    if live is None and not ended:
                        if t != "K" + op[1:]:
                            problem = "first install %s did not succeed: %s" % (op, t)
                        live = op[1:]
                    elif t != "X" + op[1:]:
                        problem = "install %s while a global recorder is set returned %s (must fail and hand its own recorder back intact)" % (op, t)
                elif op in ("E", "F"):
                    want = "N" if (live is None or ended) else "V%s:1" % live
                    if t != want:
                        problem = "emission (%s) gave %s, expected %s (live recorder %s, %s)" % (op, t, want, live, "after recovery/drop" if ended else "handle alive")
                elif op == "R":
                    if live is not None and not ended:
                        if t != "R%s:0" % live:
                            problem = "into_inner returned %s, expected the live recorder %s undropped" % (t, live)
                        ended = True
                elif op == "H":
                    if live is not None and not ended:
                        if t != "H1":
                            problem = "after the handle was dropped the recorder's drop count is %s, expected 1" % t[1:]
                        ended = True
            if problem:
                bad.append(dict(script=" ".join(ops), observed=" ".join(toks), problem=problem))
        ctx["coverage"]["global_install_scripts"] = len(scripts)
        ctx["coverage"]["global_install_sample"] = " ".join(scripts[0])
        if bad:
            return [("global", "RecoverableRecorder installed as the real global recorder violated the property: " + bad[0]["problem"],
                     dict(command="echo 'GLOBAL %s' | .cache/target/release/c20" % bad[0]["script"], failing=bad[:3]))]
        return []


PROP = C20()
