"""C18 — scrape endpoint: allowlist entries (text -> net), containment, and a real exporter answering raw
HTTP/1.1 from clients bound to distinct 127.x.y.z source addresses.

Two case kinds go through the same verdict protocol:
  E (layer D, pure)   entry text + peers  -> IpNet::from_str / add_allowed_address / IpAddr::from_str / contains
  S (layer T, server) allowlist entries + steps (connections with keep-alive requests, garbage, half-open, RST,
                      bursts of concurrent scrapers, metric updates) -> one outcome per step
The rendering a response must carry is an oracle: the driver calls handle.render() immediately before and after
every step (and checks both are equal) and prints it; parse_out stores it into the case so that the Coq side
receives it as data (C07/C08 are about its content).
"""
from .core import Prop, MachineryBroken, cq_N, cq_bool, cq_list, cq_opt, cq_bytes

M32 = (1 << 32) - 1
M128 = (1 << 128) - 1
LO = 127 << 24                     # 127.0.0.0
LO_LAST = LO + (1 << 24) - 2       # 127.255.255.254 (the broadcast address cannot be a source)


MAPPED = 0xFFFF << 32              # ::ffff:0:0/96


def seen(listen, src):
    """the peer address the listener reports for a client bound to src = [family, address]:
    a dual-stack ([::]) listener reports IPv4 clients as IPv4-mapped IPv6 addresses"""
    f, a = src
    if f == 4 and listen == "D":
        return [6, MAPPED | a]
    return [f, a]


def valid_src(f, a):
    """usable as the source address of a client socket (the kernel silently rewrites the others)"""
    if f == 4:
        return 0 < a < (224 << 24) and a != LO + (1 << 24) - 1
    if a <= 0 or a > M128 or a >> 120 == 0xFF or a >> 118 == 0x3FA or a >> 32 == 0xFFFF:
        return False                # ::, multicast, link-local (needs a scope), mapped (is an IPv4 socket)
    return True


def images4(a6):
    """IPv4 addresses an IPv6 address could be confused with: to_ipv4 / to_ipv4_mapped image (::a.b.c.d,
    ::ffff:a.b.c.d), the 6to4 payload, and the low 32 bits of anything"""
    out = [a6 & M32]
    if a6 >> 112 == 0x2002:
        out.append((a6 >> 80) & M32)
    return out


def images6(a4):
    return [MAPPED | a4, a4, (0x2002 << 112) | (a4 << 80), (0x64FF9B << 96) | a4]


def peer_class(p):
    f, a = p
    if f == 4:
        return "v4"
    if a == 1:
        return "v6-loopback"
    if a >> 32 == 0:
        return "v6-compat"
    if a >> 32 == 0xFFFF:
        return "v6-mapped"
    if a >> 112 == 0x2002 or a >> 96 == 0x20010000 or a >> 96 == 0x64FF9B:
        return "v6-transition"
    return "v6-ordinary"


def covers(net, ip):
    f, a, p = net
    w = 32 if f == 4 else 128
    return f == ip[0] and (a >> (w - p)) == (ip[1] >> (w - p))


# ---- request heads.  A request is [method, base target, pad] with pad = None or [pp, qn, hn, hs, hl, ms]:
# "/" + pp x "s" appended to the path, "?q=" + qn x "a" as the query, hn headers "X-Pad-<i>: " + hs x "v", one
# header "Cookie: " + hl x "c", the head written in two pieces ms milliseconds apart (driver: build_head).
# Limits of the UNCHANGED HTTP layer, established by probing the real exporter (hyper 1.6 / http 1.3 / httparse):
TARGET_MAX = 65534        # longest request target served; one byte more -> 414 (http::Uri's length limit)
HEADERS_MAX = 100         # most header lines served; one more -> 431 (httparse's header array)
HEAD_ASSUMED_OK = 400000  # every head up to this many bytes is served: below hyper's default max_buf_size
#                           (8192 + 4096 * 100 = 417792); the effective limit is read-chunk dependent
#                           (507904 observed), so 400001 .. 900000 is not generated and >= 1 MiB is "beyond"
HEAD_BEYOND = 1 << 20
PADDED_BASES = ["/metrics", "/", "/health", "/x"]
HEAD_SIZES = [1 << 10, 1 << 11, 1 << 12, 1 << 13, 1 << 14, 1 << 15, 1 << 16, 1 << 17, 1 << 18, 300 * 1024]


def req_pad(r):
    return (r[2] if len(r) > 2 and r[2] else [0, 0, 0, 0, 0, 0])


def req_target(r):
    pp, qn = req_pad(r)[:2]
    return r[1] + ("/" + "s" * pp if pp else "") + ("?q=" + "a" * qn if qn else "")


def req_target_len(r):
    pp, qn = req_pad(r)[:2]
    return len(r[1].encode()) + (1 + pp if pp else 0) + (3 + qn if qn else 0)


def req_headers(r, last):
    pp, qn, hn, hs, hl, ms = req_pad(r)
    return 1 + hn + (1 if hl else 0) + (1 if r[0] == "P" else 0) + (1 if last else 0)


def head_len(r, last):
    """bytes of the request head the driver sends (it echoes the number; parse_out compares)"""
    pp, qn, hn, hs, hl, ms = req_pad(r)
    n = (5 if r[0] == "P" else 4) + req_target_len(r) + len(" HTTP/1.1\r\nHost: c18\r\n")
    n += sum(len("X-Pad-%d: " % i) + hs + 2 for i in range(hn))
    n += (8 + hl + 2 if hl else 0) + (19 if r[0] == "P" else 0) + (19 if last else 0) + 2
    return n


def size_bucket(n):
    for lim, name in [(1 << 10, "<1K"), (1 << 12, "1K-4K"), (1 << 13, "4K-8K"), (1 << 14, "8K-16K"), (1 << 16, "16K-64K"),
                      (1 << 17, "64K-128K"), (1 << 18, "128K-256K"), (HEAD_ASSUMED_OK + 1, "256K-400K")]:
        if n < lim:
            return name
    return ">400K"


def v4text(a):
    return "%d.%d.%d.%d" % (a >> 24, (a >> 16) & 255, (a >> 8) & 255, a & 255)


def groups(a):
    return [(a >> (16 * (7 - i))) & 0xFFFF for i in range(8)]


def v6text(a, rng, style):
    """style: 0 full, 1 full 4-digit, 2 upper, 3 compressed longest zero run, 4 compressed + dotted-quad tail,
    5 compress a random (possibly non-zero-free) position correctly, 6 full + dotted-quad tail"""
    g = groups(a)
    if style == 0:
        return ":".join("%x" % x for x in g)
    if style == 1:
        return ":".join("%04x" % x for x in g)
    if style == 2:
        return ":".join("%X" % x for x in g)
    if style in (4, 6):
        tail = v4text((g[6] << 16) | g[7])
        head = g[:6]
        if style == 6:
            return ":".join("%x" % x for x in head) + ":" + tail
        # compress leading zero run of head if any
        k = 0
        while k < 6 and head[k] == 0:
            k += 1
        if k == 0:
            return ":".join("%x" % x for x in head) + ":" + tail
        return "::" + "".join("%x:" % x for x in head[k:]) + tail
    # find zero runs
    best, bl = -1, 0
    i = 0
    runs = []
    while i < 8:
        if g[i] == 0:
            j = i
            while j < 8 and g[j] == 0:
                j += 1
            runs.append((i, j - i))
            if j - i > bl:
                best, bl = i, j - i
            i = j
        else:
            i += 1
    if not runs:
        return ":".join("%x" % x for x in g)
    if style == 5:
        best, bl = rng.pick(runs)
        bl = rng.range(1, bl)
    return ":".join("%x" % x for x in g[:best]) + "::" + ":".join("%x" % x for x in g[best + bl:])


PLEN4 = [0, 1, 7, 8, 9, 15, 16, 17, 23, 24, 25, 29, 30, 31, 32]
PLEN6 = [0, 1, 7, 8, 16, 32, 48, 63, 64, 65, 96, 112, 120, 127, 128]
GARBAGE = ["", " ", "/", "//", "/32", "1.2.3.4/", "1.2.3.4//8", "1.2.3/8", "1.2.3.4.5/8", "1.2.3.4.5", "1.2.3.", ".1.2.3.4",
           "1..2.3", "256.1.1.1/8", "1.2.3.256", "1.2.3.4/33", "1.2.3.4/032", "1.2.3.4/+8", "1.2.3.4/-1", "1.2.3.4/8 ",
           " 1.2.3.4/8", "1.2.3.4 /8", "1.2.3.4/ 8", "1.2.3.4\n", "0x7f.0.0.1", "127.1", "2130706433", "1.2.3.4/8/8",
           "01.2.3.4", "001.2.3.4", "0001.2.3.4", "1.2.3.04", "00.0.0.0", "0.0.0.0", "0.0.0.0/0", "0.0.0.00/0",
           "01.02.03.04/05", "1.2.3.4/00", "1.2.3.4/000", "1.2.3.4/08", "1.2.3.4/99", "1.2.3.4/100", "1.2.3.4/256",
           "::", "::/0", "::/128", "::/129", "::/0128", "::/00128", "::1/0064", "::1", ":::", ":::1", "1:::2", "1::2::3",
           ":1", "1:", "1:2:3:4:5:6:7:8", "1:2:3:4:5:6:7:8:9", "1:2:3:4:5:6:7", "1:2:3:4:5:6:7::", "::2:3:4:5:6:7:8",
           "1:2:3:4:5:6:7::8", "1:2:3:4:5:6:7::8/64", "1::2:3:4:5:6:7:8", "1:2:3:4::5:6:7:8", "12345::1", "g::1",
           "::ffff:1.2.3.4", "::ffff:1.2.3.4/96", "::1.2.3.4", "1.2.3.4::", "1.2.3.4::1", "::1.2.3.4:5", "1:2:3:4:5:6:1.2.3.4",
           "1:2:3:4:5:6:7:1.2.3.4", "1:2:3:4:5:1.2.3.4", "::ffff:01.2.3.4", "::ffff:01.2.3.4/96", "::ffff:1.2.3", "::ffff:256.1.1.1",
           "fe80::1%eth0", "fe80::1%1", "[::1]", "[::1]/128", "::1/", "::1/129", "::1/200", "::1/999", "::1/1000",
           "FFFF:FFFF:FFFF:FFFF:FFFF:FFFF:FFFF:FFFF/128", "ffff:ffff:ffff:ffff:ffff:ffff:ffff:ffff", "0:0:0:0:0:0:0:0",
           "0000:0000:0000:0000:0000:0000:0000:0001", "00000::1", "::00001", "1:2:3:4:5:6:7:8/", "localhost", "127.0.0.1:9000",
           "127.0.0.1/24", "127.0.0.1/32", "127.0.0.1", "10.0.0.0/8", "١.2.3.4", "1.2.3.4/٣٢", "é", "1.2.3.4 ",
           "1,2,3,4", "1.2.3.4/8\x00", "\t1.2.3.4", "a.b.c.d", "1.2.3.4/a", "-1.2.3.4", "+1.2.3.4", "1.2.3.4e0", "1.2.3.4/3 2"]
TARGETS = ["/metrics", "/", "/health", "/health?x=1", "/health/", "/healthz", "/health#f", "//health", "/HEALTH",
           "/x/health", "/health%20", "/?health", "/health?", "/heal", "/health/../metrics", "/m?a=/health"]
FAULT_BYTES = [b"garbage\r\n\r\n", b"\x00\xff\x10\x80 not http at all", b"GET", b"GET /met", b"GET / HTTP/1.1\r\nHost: x\r\n",
               b"GET / HTTP/9.9\r\n\r\n", b"G" * 200, b"\r\n\r\n\r\n", b"POST / HTTP/1.1\r\nContent-Length: 100\r\n\r\nabc",
               b"GET /\x01 HTTP/1.1\r\n\r\n", b"", b"GET / HTTP/1.1\r\nTransfer-Encoding: chunked\r\n\r\nzz\r\n"]


class C18(Prop):
    pid = "C18"
    pkg = "hprom"
    binname = "c18"
    quick_cases = 2400
    thorough_cases = 40000
    shard = 200
    server_every = 20          # one case in 20 is a server scenario
    rule = ("E: entry texts printed from random (address, prefix length) pairs of both families in several spellings "
            "(canonical, zero-padded, upper case, :: compression, dotted-quad tail), prefix lengths at and beyond the "
            "limits, plus ~170 fixed adversarial strings; peers = first/last address of the block, both neighbours, the "
            "address itself, random inside/outside, and the other-family addresses it could be confused with (::ffff:a, ::a, "
            "6to4/NAT64 embeddings, low 32 bits). S: a real exporter per scenario on 127.0.0.1, [::1] or the dual-stack "
            "[::], inside a private network namespace where every unicast address is local; 1-2 focus peers drawn from "
            "IPv4 (127.x, 0.0.0.x, 10.x, other), ::1, IPv4-compatible ::a.b.c.d, IPv4-mapped (IPv4 client on [::]), "
            "6to4/teredo/NAT64 and ordinary IPv6; 0-4 entries of BOTH families related to a focus peer as seen by the "
            "listener: covering it (host, /w-1.., /96, /8, /0), covering its image in the other family, the adjacent "
            "block, or random; 3-9 steps (connections from focus peers, their neighbours and block edges with 1-4 keep-alive "
            "requests over 16 request targets, garbage / half-open / RST faults, metric updates, bursts of 5-50 "
            "concurrent scrapers), always ending in a well-formed request. Request-head size is a dimension: one "
            "request in three connections has its head placed within 3 bytes of 1K..256K or 300K by a long path, a long "
            "query, up to 100 header lines, one long cookie or a mix (target up to 65534 bytes), before / between / after "
            "short requests on the same keep-alive connection, some written in two pieces 50-150 ms apart, a quarter of the "
            "bursts with 1-16 KB queries; one connection in 14 ends with a request beyond exactly one limit of the "
            "unchanged HTTP layer (target > 65534, > 100 header lines, head >= 1 MiB). The head-size distribution and the "
            "(peer class x entry family x covers peer/covers image/neither) table of every run is in coverage.c18_measured. Non-trivial: any case where at least one "
            "of the three parsers accepts, or any server scenario; distinct = distinct (case, output).")
    design_ref = "DESIGN.md 4 C18"
    technique = ("Coq proof about a statement-by-statement model of add_allowed_address (ipnet's and std's address "
                 "parsers), ipnet's mask-based containment, check_tcp_allowed, handle_http_request and the accept loop; "
                 "differential correspondence in two layers: pure (parsers, builder, contains) and a real exporter on "
                 "loopback (IPv4, IPv6 and dual-stack listeners) queried over raw HTTP/1.1 from sockets bound to arbitrary IPv4 "
                 "and IPv6 source addresses inside a private network namespace")
    level_text = ("Theorems (Coq, all allowlists, peers, request targets, renderings, event histories): a peer contained in no "
                  "listed network gets 403 with an empty body for every target; a peer inside any listed network and every peer "
                  "when no allowlist is configured is served (/health -> OK, anything else -> the rendering passed in); containment "
                  "by ipnet's masks equals equality of the top prefix-length bits, with first/last address inside, both neighbours "
                  "outside, /0 = the whole family, /w = the host only, allowlist = disjunction; address families never cross (an IPv6 "
                  "peer - ::1, ::a.b.c.d, ::ffff:a.b.c.d included - is matched by IPv6 networks only, an IPv4 peer by IPv4 networks "
                  "only, so a peer with only other-family entries listed gets 403); every canonical IPv4 entry "
                  "(a.b.c.d and a.b.c.d/p) parses to the network it denotes, a plain address to its host network (refuted for the "
                  "code before the fix); everything the parsers return is in range; no sequence of connection events changes the "
                  "listener's allowlist or stops it, and a new connection is then answered per the specification with the current "
                  "rendering (C18_served_per_spec). The model is tied to /repo by running the real parsers/builder/contains and a "
                  "real exporter on the same cases each run.")
    level_note = ("Limits. hyper, tokio and the kernel's TCP stack are the runtime: exercised, not modelled; liveness under faults "
                  "(a well-formed request after garbage bytes, half-open sockets, RSTs and concurrent scrapers is still answered) "
                  "is exercised on the real server every run, the theorem is only the independence of the listener state. "
                  "The rendering is an oracle (handle.render() taken around each step); its content is C07/C08. "
                  "The text theorems cover canonical IPv4 entries for all addresses/prefix lengths; IPv6 spellings (::, dotted-quad "
                  "tails, zero padding) and non-canonical IPv4 spellings are covered by concrete Coq examples and by the "
                  "correspondence runs against the faithful parser models, not by a general theorem; in server scenarios the stated "
                  "meaning of an IPv6 entry is accepted only if the parser model reads the text that way (IPv4 entries: through the "
                  "printer). As the code stands an IPv4 client of a dual-stack [::] listener is seen as ::ffff:a.b.c.d and is therefore "
                  "refused by IPv4 entries and served only through IPv6 entries covering the mapped address; the model follows the code "
                  "and the specification takes the peer address as the socket reports it (recorded as an observation, not a finding). "
                  "Size limits of the HTTP layer are an assumption, not a theorem: every request whose target is at most 65534 bytes, "
                  "with at most 100 header lines and a head of at most 400000 bytes (below hyper's default max_buf_size 417792) is a "
                  "well-formed request in the model's sense and must be answered per the specification; the unchanged exporter's own "
                  "limits were established by probing (414 beyond the target limit, 431 beyond 100 header lines or a head of 507905 "
                  "bytes, the last one depending on read chunking, hence the margin). Beyond the limits the model returns the HTTP "
                  "layer's refusal as data and spec_ok accepts any refusal without data (status other than 200, empty body) or, for "
                  "an allowed peer, the specified answer; heads between 400001 bytes and 1 MiB are not generated. "
                  "The unspecified address :: cannot be a real peer and appears only in the pure layer; link-local and multicast "
                  "sources are not used. The peer_addr() error arm of check_tcp_allowed "
                  "(-> not allowed) is not in the model; it is reached on the real server by the RST fault steps when an allowlist "
                  "is configured (a connection reset before accept has no peer address), where its only observable effect is that "
                  "later clients are still served. listener.accept() errors are modelled (AcceptErr) but not provoked. HEAD "
                  "requests and absolute-form targets are not generated.")
    assumptions = ["the driver may create a private network namespace (unshare(CLONE_NEWNET) as root, iproute2 `ip`, AnyIP local "
                   "routes, ip_nonlocal_bind); if it cannot, the run stops as MACHINERY-BROKEN, it does not pass",
                   "request heads within the limits of the unchanged HTTP layer (target <= 65534 bytes, <= 100 header lines, head "
                   "<= 400000 bytes, i.e. below hyper's default max_buf_size 417792) are requests the server must answer; "
                   "these numbers were established on the unchanged exporter and are hyper/http/httparse defaults",
                   "a dual-stack listener reports an IPv4 client as ::ffff:a.b.c.d and any other client under its own address "
                   "(self-tested by the driver at start-up); a client's source address is the one it was bound to (asserted after connect)",
                   "the rendering does not change between the two handle.render() calls around a step (checked by the driver)"]
    trusted_extra = ["ipnet 2.11 and core::net address parsers, hyper 1.6 / tokio 1.44 (exercised; the parsers and ipnet's masks are modelled)",
                     "the harness's own HTTP/1.1 client (status line, Content-Length framing)",
                     "Linux network namespaces / AnyIP routing on lo, which make arbitrary source addresses reach the real listener"]

    # ------------------------------------------------------------------ generators
    def gen_addr(self, rng, fam):
        if fam == 4:
            return rng.weighted([(4, LO + rng.below(1 << 10)), (2, LO + rng.below(1 << 24)), (2, rng.below(1 << 32)),
                                 (1, 0), (1, M32), (1, (10 << 24) + rng.below(1 << 16)), (1, rng.below(256) << 24)])
        hi = rng.pick([0, 0, 0xfe80 << 112, 0xfd00 << 112, 0x2001 << 112 | 0xdb8 << 96, rng.below(1 << 128)])
        shape = rng.below(6)
        if shape == 0:
            return rng.pick([0, 1, M128, 0xffff << 32 | rng.below(1 << 32)])
        if shape == 1:
            return hi | rng.below(1 << 16)
        if shape == 2:
            return hi | (rng.below(1 << 16) << 64) | rng.below(1 << 16)
        if shape == 3:   # sparse groups -> several zero runs
            v = 0
            for i in range(8):
                v = (v << 16) | (rng.below(1 << 16) if rng.chance(1, 2) else 0)
            return v
        if shape == 4:
            return rng.below(1 << 128)
        return hi | rng.below(1 << 64)

    def gen_peers(self, rng, fam, a, p):
        w, m = (32, M32) if fam == 4 else (128, M128)
        p = min(p, w)
        k = w - p
        first = (a >> k) << k
        last = first + (1 << k) - 1
        cand = [first, last, (first - 1) & m, (last + 1) & m, a & m, 0, m,
                (first + rng.below(1 << k)) & m, rng.below(1 << w), (a ^ (1 << rng.below(w))) & m]
        peers = [[fam, x] for x in rng.shuffle(cand)[:rng.range(2, 7)]]
        # the other family: the addresses this block's members could be confused with
        other = [[4, x] for x in images4(a & m) + images4(first) + images4(last)] if fam == 6 else \
                [[6, x] for x in images6(a & m) + [MAPPED | first, MAPPED | last, first, last]]
        peers += rng.shuffle(other)[:rng.range(1, 3)]
        if rng.chance(1, 4):
            peers.append(rng.pick([[6, 0], [6, 1], [6, MAPPED | LO + 1], [6, LO + 1], [4, 1], [4, 0], [4, LO + 1]]))
        return peers

    def gen_entry(self, rng):
        r = rng.below(100)
        if r < 12:
            txt = rng.pick(GARBAGE)
            fam = 6 if ":" in txt else 4
            return dict(k="E", entry=txt, intent=None, peers=self.gen_peers(rng, fam, self.gen_addr(rng, fam), rng.below(33)))
        fam = 4 if r < 60 else 6
        a = self.gen_addr(rng, fam)
        w = 32 if fam == 4 else 128
        p = rng.weighted([(6, rng.pick(PLEN4 if fam == 4 else PLEN6)), (3, rng.below(w + 1)),
                          (1, rng.pick([w + 1, w + 2, 99, 100, 129, 200, 255, 256, 999, 1000]))])
        plain = rng.chance(1, 4)
        intent = None
        if fam == 4:
            style = rng.below(8)
            if style < 5:
                at = v4text(a)
                if p <= 32:
                    intent = [a, 32 if plain else p, plain]
            elif style == 5:   # zero-padded octets
                at = ".".join(("%0" + str(rng.range(1, 4)) + "d") % o for o in [a >> 24, (a >> 16) & 255, (a >> 8) & 255, a & 255])
            elif style == 6:   # one octet out of range / wrong count
                os_ = [a >> 24, (a >> 16) & 255, (a >> 8) & 255, a & 255]
                os_[rng.below(4)] = rng.pick([256, 260, 300, 999, 1000])
                at = ".".join(str(o) for o in os_)
            else:
                at = ".".join(str(o) for o in [a >> 24, (a >> 16) & 255, (a >> 8) & 255, a & 255][:rng.pick([3, 4, 4])]) + rng.pick(["", ".", ".7"])
        else:
            at = v6text(a, rng, rng.below(7))
        if plain:
            txt = at
        else:
            pt = str(p) if rng.chance(5, 6) else ("%0" + str(rng.range(2, 4)) + "d") % p
            if intent is not None and pt != str(p):
                intent = None
            txt = at + "/" + pt
        if rng.chance(1, 40):
            txt = rng.pick([" " + txt, txt + " ", txt + "\n", txt.upper(), txt + "/", txt.replace("/", " /")])
            intent = None
        return dict(k="E", entry=txt, intent=intent, peers=self.gen_peers(rng, fam, a, min(p, w) if not plain else w))

    # ---- server scenarios
    def v4src(self, rng):
        return rng.weighted([(4, LO + rng.range(1, 16)), (2, LO + rng.below(1 << 24)), (3, rng.range(1, 9)),
                             (2, (10 << 24) + rng.range(1, 1 << 16)), (1, (192 << 24) | (2 << 8) | rng.range(1, 254)),
                             (1, rng.range(1 << 24, (224 << 24) - 1))])

    def v6src(self, rng):
        return rng.weighted([(4, 1), (3, self.v4src(rng)),                                        # ::1, ::a.b.c.d
                             (2, (0x2002 << 112) | (self.v4src(rng) << 80) | rng.below(4)),         # 6to4
                             (1, (0x20010000 << 96) | rng.below(1 << 96)),                          # teredo
                             (1, (0x64FF9B << 96) | self.v4src(rng)),                               # NAT64
                             (2, (0xFD00 << 112) | rng.below(1 << 32)), (1, (0x20010DB8 << 96) | rng.below(1 << 16)),
                             (1, rng.range(1 << 64, (0xFE << 120) - 1))])

    def gen_src(self, rng, listen):
        for _ in range(50):
            fam = 4 if listen == "4" else 6 if listen == "6" else rng.pick([4, 6])
            src = [fam, self.v4src(rng) if fam == 4 else self.v6src(rng)]
            if valid_src(*src):
                return src
        return [4, LO + 1] if listen != "6" else [6, 1]

    def gen_sentry(self, rng, fam, a, p, plain):
        """one scenario entry: [text, meaning]; IPv4 in the documented canonical syntax (meaning checked through the
        printer), IPv6 in a random spelling (meaning checked through the parser model)"""
        if fam == 4:
            return [v4text(a) + ("" if plain else "/%d" % p), ["4", a, 32 if plain else p, plain]]
        style = rng.pick([0, 1, 2, 3, 3, 5, 4 if a >> 32 in (0, 0xFFFF) or a >> 96 == 0x64FF9B else 3])
        return [v6text(a, rng, style) + ("" if plain else "/%d" % p), ["P", 6, a, 128 if plain else p]]

    def gen_server(self, rng, thorough):
        listen = rng.weighted([(4, "4"), (4, "D"), (2, "6")])
        focus = [self.gen_src(rng, listen) for _ in range(rng.range(1, 2))]
        entries = []
        for _ in range(rng.weighted([(1, 0), (3, 1), (3, 2), (2, 3), (1, 4)])):
            P = seen(listen, rng.pick(focus))
            rel = rng.weighted([(3, "orig"), (3, "image"), (1, "near"), (1, "image-near"), (1, "rand"),
                                (7 if entries else 0, "nest")])
            if rel == "nest":
                # a wider or narrower block around an entry already listed (nested / overlapping allowlists),
                # written with the same address or with its own network address, placed before or after it
                m = rng.pick(entries)[1]
                fam, a, p0 = self.meaning_net(m)
                w = 32 if fam == 4 else 128
                p = max(0, min(w, p0 + rng.pick([-1, 1]) * rng.pick([1, 2, 4, 8, 8, 16])))
                if rng.chance(1, 2):
                    a = (a >> (w - p)) << (w - p)
                elif rng.chance(1, 3):
                    a = ((a >> (w - p)) << (w - p)) + rng.below(1 << min(w - p, 16))
                plain = p == w and rng.chance(1, 2)
                entries.insert(rng.below(len(entries) + 1), self.gen_sentry(rng, fam, a, p, plain))
                continue
            if rel in ("orig", "near"):
                fam, a = P
            elif rel == "rand":
                fam = rng.pick([4, 6])
                a = self.gen_addr(rng, fam)
            else:
                fam = 10 - P[0]
                a = rng.pick(images4(P[1]) if fam == 4 else images6(P[1]))
            w = 32 if fam == 4 else 128
            plain = rng.chance(1, 4)
            p = w if plain else rng.weighted([(5, rng.pick([w, w, w - 1, w - 2, w - 8, 8, 0] + ([96, 104, 64, 16] if fam == 6 else [24, 16]))),
                                              (2, rng.below(w + 1))])
            if rel.endswith("near") and p > 0:
                a ^= 1 << (w - p)          # the adjacent block of the same size: does not contain the address
            elif rng.chance(1, 3):
                a = (a >> (w - p)) << (w - p)   # written as the network address instead of with host bits
            entries.append(self.gen_sentry(rng, fam, a, p, plain))

        def peer():
            r = rng.below(20)
            cand = []
            if r < 8:
                cand = [rng.pick(focus)]
            elif r < 10:
                f, a = rng.pick(focus)
                cand = [[f, a + 1], [f, a - 1]]
            elif r < 18 and entries:
                f, a, p = self.meaning_net(rng.pick(entries)[1])
                k = (32 if f == 4 else 128) - p
                first = (a >> k) << k
                for x in (first, first + (1 << k) - 1, first - 1, first + (1 << k), a, first + rng.below(1 << k)):
                    if f == 6 and x >> 32 == 0xFFFF:
                        cand.append([4, x & M32])       # a mapped address is presented by an IPv4 client
                    else:
                        cand.append([f, x])
            cand = [c for c in rng.shuffle(cand) if valid_src(*c) and
                    (listen == "D" or (listen == "4") == (c[0] == 4))]
            return cand[0] if cand else self.gen_src(rng, listen)

        def padded(last):
            """a request whose head is placed at a chosen size: around a power of two (+-3 bytes), via a long path,
            a long query, many headers or one long header; within the limits of the unchanged HTTP layer"""
            m = rng.weighted([(5, "G"), (1, "P")])
            base = rng.pick(PADDED_BASES)
            size = rng.weighted([(2, HEAD_SIZES[rng.below(3)]), (4, HEAD_SIZES[3 + rng.below(4)]), (2, HEAD_SIZES[7 + rng.below(3)])])
            want = size + rng.pick([-3, -2, -1, 0, 0, 1, 2, 3])
            knob = rng.pick(["path", "query", "cookie", "headers", "mixed"])
            if want > 60000 and knob in ("path", "query"):
                knob = rng.pick(["cookie", "headers", "mixed"])
            pad = [0, 0, 0, 0, 0, rng.pick([50, 150]) if rng.chance(1, 12) else 0]
            if knob == "mixed":        # a long target (up to the target limit) and the rest in a cookie
                pad[rng.below(2)] = rng.pick([1000, 4000, 8200, 30000, TARGET_MAX - len(base) - 3 - rng.below(3)])
                knob = "cookie"
            if knob == "headers":
                pad[2] = rng.pick([3, 20, 60, 90, HEADERS_MAX - 3 - (1 if m == "P" else 0)])
            r = [m, base, pad]
            idx = {"path": 0, "query": 1, "cookie": 4, "headers": 3}[knob]
            for _ in range(4):         # solve for the knob so that the head is exactly `want` bytes
                pad[idx] = 1
                per = pad[2] if knob == "headers" else 1
                pad[idx] = max(1, 1 + (want - head_len(r, last)) // per)
                if knob != "headers":
                    break
            if knob == "headers" and pad[4] == 0:
                rest = want - head_len(r, last)
                if rest > 10:
                    pad[4] = rest - 10   # top up with a short cookie so that the total is exact
            assert req_target_len(r) <= TARGET_MAX and req_headers(r, last) <= HEADERS_MAX and head_len(r, last) <= HEAD_ASSUMED_OK, r
            return r

        def beyond():
            """one request beyond exactly one limit of the unchanged HTTP layer: [status it refuses with, request]"""
            base = rng.pick(PADDED_BASES)
            kind = rng.below(3)
            if kind == 0:
                n = rng.pick([1, 2, 3, 66, 4466]) + TARGET_MAX - len(base)
                pad = [n - 1, 0, 0, 0, 0, 0] if rng.chance(1, 2) else [0, n - 3, 0, 0, 0, 0]
                return [414, ["G", base, pad]]
            if kind == 1:
                return [431, ["G", base, [0, 0, HEADERS_MAX - 2 + rng.pick([1, 2, 20]), 10, 0, 0]]]
            return [431, ["G", base, [0, 0, 0, 0, HEAD_BEYOND + rng.below(4), 0]]]

        def conn():
            n = rng.weighted([(4, 1), (2, 2), (1, 3), (1, 4)])
            reqs = [[rng.weighted([(5, "G"), (1, "P")]), rng.pick(TARGETS), None] for _ in range(n)]
            over = None
            if rng.chance(1, 3):       # one request of the connection gets a sized head (before/after short ones)
                i = rng.below(n)
                reqs[i] = padded(i == n - 1)
            elif rng.chance(1, 15):
                reqs[rng.below(n)][2] = [0, 0, 0, 0, 0, rng.pick([50, 150])]
            if rng.chance(1, 14):
                over = beyond()
            if over is not None:
                # requests before a refused one are not the last of their connection; the refused one is
                for r in reqs:
                    assert head_len(r, False) <= HEAD_ASSUMED_OK
            return ["C", peer(), reqs, over]
        steps = []
        for _ in range(rng.range(2, 8)):
            r = rng.below(20)
            if r < 11:
                steps.append(conn())
            elif r < 16:
                steps.append([rng.pick("GHR"), peer(), rng.pick(FAULT_BYTES).hex()])
            elif r < 18:
                steps.append(["I"])
            else:
                n = rng.range(20, 50) if thorough else rng.range(5, 20)
                if rng.chance(1, 4):
                    steps.append(["B", n, peer(), rng.pick(PADDED_BASES),
                                  [0, rng.pick([1021, 4093, 8190, 8200, 16390]), 0, 0, 0, 0]])
                else:
                    steps.append(["B", n, peer(), rng.pick(TARGETS)])
        steps.append(conn())
        return dict(k="S", listen=listen, entries=entries, steps=steps, renders=None)

    def gen(self, rng, n):
        thorough = n > 10000
        cases = []
        for i in range(n):
            if i % self.server_every == self.server_every - 1:
                cases.append(self.gen_server(rng, thorough))
            else:
                cases.append(self.gen_entry(rng))
        return cases

    # ------------------------------------------------------------------ implementation side
    def impl_line(self, c):
        if c["k"] == "E":
            e = c["entry"].encode("utf-8").hex() or "-"
            ps = ",".join("%d:%d" % (f, v) for f, v in c["peers"]) or "-"
            return "E %s %s" % (e, ps)
        ents = ",".join(t.encode().hex() for t, _ in c["entries"]) or "-"
        toks = []
        for s in c["steps"]:
            if s[0] == "C":
                rq = list(s[2]) + ([s[3][1]] if len(s) > 3 and s[3] else [])
                toks.append("C:%d.%d:%s" % (s[1][0], s[1][1], ",".join(self.req_token(r) for r in rq)))
            elif s[0] == "B":
                toks.append("B:%d:%d.%d:%s" % (s[1], s[2][0], s[2][1], self.req_token(["G", s[3], s[4] if len(s) > 4 else None])[1:]))
            elif s[0] == "I":
                toks.append("I")
            else:
                toks.append("%s:%d.%d:%s" % (s[0], s[1][0], s[1][1], s[2]))
        return "S %s %s | %s" % (c["listen"], ents, " ".join(toks))

    @staticmethod
    def req_token(r):
        pad = r[2] if len(r) > 2 else None
        return r[0] + r[1].encode().hex() + ("~" + ".".join(str(x) for x in pad) if pad else "")

    @staticmethod
    def step_reqs(s):
        """(request, is the last of its connection) for every request the driver sends in step s, in output order"""
        if s[0] == "B":
            return [(["G", s[3], s[4] if len(s) > 4 else None], True)] * s[1]
        rq = list(s[2]) + ([s[3][1]] if len(s) > 3 and s[3] else [])
        return [(r, i == len(rq) - 1) for i, r in enumerate(rq)]

    @staticmethod
    def _net(t):
        if t == "x":
            return None
        f, a, p = t.split(":")
        return [int(f), int(a), int(p)]

    def parse_out(self, c, line):
        if line.startswith("PANIC"):
            return dict(panic=bytes.fromhex(line.split()[1]).decode("utf-8", "replace") if len(line.split()) > 1 else "?")
        if c["k"] == "E":
            lib, built, std, bits = line.split()
            sd = None if std == "x" else [int(x) for x in std.split(":")]
            return dict(lib=self._net(lib), built=self._net(built), std=sd, bits=None if bits == "-" else bits)
        if line.strip() == "E":
            return dict(builderr=True)
        outs, renders = [], []
        for s, tok in zip(c["steps"], line.split()):
            if tok in ("f", "i"):
                outs.append(tok)
                renders.append(None)
                continue
            kind, render, rs = tok.split(":")
            renders.append(render)
            rl = []
            for (rq, last), r in zip(self.step_reqs(s), rs.split(",")):
                st, body, sent = r.split("/")
                if int(sent) not in (0, head_len(rq, last)):
                    raise MachineryBroken("C18: the driver sent a %s-byte head where the generator computed %d: %r" % (sent, head_len(rq, last), rq))
                rl.append([int(st), body])
            outs.append([kind, rl])
        c["renders"] = renders       # oracle data: what handle.render() returned around each step
        return dict(steps=outs)

    # ------------------------------------------------------------------ measured coverage
    def evaluate(self, binpath, cases, tier, tag="cases"):
        rs = super().evaluate(binpath, cases, tier, tag=tag)
        if tag == "cases":
            self._pairs, self._resp, self._heads = {}, {}, {}
            st = dict(entry_cases=0, entries_accepted_cidr=0, entries_accepted_plain=0, entries_rejected=0,
                      entries_ipv6_accepted=0, entries_with_documented_intent=0, membership_answers_true=0,
                      membership_answers_false=0, server_scenarios=0, connections=0, responses_200_render=0,
                      responses_200_ok=0, responses_403_empty=0, responses_other=0, fault_steps=0,
                      burst_steps=0, burst_connections=0, update_steps=0, requests_after_a_fault=0)
            for r in rs:
                c, o = r["case"], r["out"]
                if "panic" in o or "builderr" in o:
                    continue
                if c["k"] == "E":
                    st["entry_cases"] += 1
                    if o["lib"]:
                        st["entries_accepted_cidr"] += 1
                    elif o["built"]:
                        st["entries_accepted_plain"] += 1
                    else:
                        st["entries_rejected"] += 1
                    if o["built"] and o["built"][0] == 6:
                        st["entries_ipv6_accepted"] += 1
                    if c["intent"]:
                        st["entries_with_documented_intent"] += 1
                    if o["bits"]:
                        st["membership_answers_true"] += o["bits"].count("1")
                        st["membership_answers_false"] += o["bits"].count("0")
                    continue
                st["server_scenarios"] += 1
                faulted = False
                for s, t in zip(c["steps"], o["steps"]):
                    if s[0] in "GHR":
                        st["fault_steps"] += 1
                        faulted = True
                    elif s[0] == "I":
                        st["update_steps"] += 1
                    else:
                        if s[0] == "B":
                            st["burst_steps"] += 1
                            st["burst_connections"] += s[1]
                        else:
                            st["connections"] += 1
                        self.count_family(c, s[2] if s[0] == "B" else s[1], t[1])
                        self.count_heads(s, t[1])
                        for code, body in t[1]:
                            if faulted:
                                st["requests_after_a_fault"] += 1
                            if code == 403 and body == "":
                                st["responses_403_empty"] += 1
                            elif code == 200 and body == "4f4b":
                                st["responses_200_ok"] += 1
                            elif code == 200:
                                st["responses_200_render"] += 1
                            else:
                                st["responses_other"] += 1
            st["head_sizes"] = dict(sorted(self._heads.items()))
            st["family_pairs"] = dict(sorted(self._pairs.items()))
            st["family_responses"] = dict(sorted(self._resp.items()))
            self._stats = st
        return rs

    @staticmethod
    def meaning_net(m):
        return (4, m[1], m[2]) if m[0] == "4" else (m[1], m[2], m[3])

    def count_heads(self, s, rl):
        """distribution of request-head sizes: bucket (or which limit is exceeded) x how the size was reached x status"""
        over = s[3] if s[0] == "C" and len(s) > 3 else None
        for (rq, last), (code, _) in zip(self.step_reqs(s), rl):
            n = head_len(rq, last)
            pp, qn, hn, hs, hl, ms = req_pad(rq)
            if over and rq is over[1]:
                what = "beyond: " + ("target > %d" % TARGET_MAX if req_target_len(rq) > TARGET_MAX else
                                     "more than %d headers" % HEADERS_MAX if req_headers(rq, last) > HEADERS_MAX else "head >= 1 MiB")
            else:
                how = "+".join(x for x, v in (("path", pp), ("query", qn), ("headers", hn), ("cookie", hl)) if v) or "plain"
                what = "%s via %s" % (size_bucket(n), how)
                for k in range(10, 19):
                    if abs(n - (1 << k)) <= 3:
                        what2 = "within 3 bytes of %dK" % (1 << (k - 10))
                        self._heads[what2] = self._heads.get(what2, 0) + 1
            keys = ["%s -> %d" % (what.split(" via ")[0], code)]
            if " via " in what:
                keys.append("reached via " + what.split(" via ")[1] + (" (burst)" if s[0] == "B" else ""))
            if ms:
                keys.append("head written in two pieces %d ms apart" % ms)
            if s[0] == "C" and len(s[2]) > 1 and (pp or qn or hn or hl):
                keys.append("sized head %s on a keep-alive connection" %
                            ("first" if rq is s[2][0] else "last" if last else "in the middle"))
            for key in keys:
                self._heads[key] = self._heads.get(key, 0) + 1

    def count_family(self, c, src, rl):
        """the address-family table: (peer class x entry family x covers the peer / covers an image of the peer in
        the other family / neither) per (request, entry) pair, and (peer class x what the allowlist covers) -> status"""
        P = seen(c["listen"], src)
        cls = peer_class(P)
        nets = [self.meaning_net(m) for _, m in c["entries"]]
        imgs = [[4, x] for x in images4(P[1])] if P[0] == 6 else [[6, x] for x in images6(P[1])]
        orig = img = False
        for n in nets:
            if covers(n, P):
                rel, orig = "covers-peer", True
            elif any(covers(n, i) for i in imgs):
                rel, img = "covers-image", True
            else:
                rel = "neither"
            k = "%s | v%d entry | %s" % (cls, n[0], rel)
            self._pairs[k] = self._pairs.get(k, 0) + len(rl)
        what = "no allowlist" if not nets else ("peer listed" if orig else "only its image listed" if img else "not listed")
        for code, _ in rl:
            k = "%s | %s -> %d" % (cls, what, code)
            self._resp[k] = self._resp.get(k, 0) + 1

    def extra_checks(self, ctx):
        ctx["coverage"]["c18_measured"] = getattr(self, "_stats", {})
        return []

    # ------------------------------------------------------------------ Coq side
    @staticmethod
    def cq_ip(f, v):
        return "(V%d %s)" % (f, cq_N(v))

    @staticmethod
    def cq_hexbytes(h):
        return '(hx "%s")' % h

    def cq_netopt(self, n):
        return "None" if n is None else "(Some (V%d %s, %s))" % (n[0], cq_N(n[1]), cq_N(n[2]))

    @staticmethod
    def cq_target(r):
        """the request target with its padding run-length encoded (fill c n = n copies of byte c)"""
        pp, qn = req_pad(r)[:2]
        t = cq_bytes(r[1])
        if pp:
            t += " ++ [47] ++ fill 115 %s" % cq_N(pp)
        if qn:
            t += " ++ [63; 113; 61] ++ fill 97 %s" % cq_N(qn)
        return "(%s)" % t if (pp or qn) else t

    @staticmethod
    def cq_entry4(i):
        return "{| e_addr := %s; e_plen := %s; e_plain := %s |}" % (cq_N(i[0]), cq_N(i[1]), cq_bool(i[2]))

    def coq_case(self, c):
        if c["k"] == "E":
            intent = "None" if c["intent"] is None else "(Some %s)" % self.cq_entry4(c["intent"])
            return "(CEntry %s %s %s)" % (cq_bytes(c["entry"]), intent, cq_list([self.cq_ip(f, v) for f, v in c["peers"]]))
        def sentry(m):
            if m[0] == "4":
                return "E4 %s" % self.cq_entry4(m[1:])
            return "EP (V%d %s, %s)" % (m[1], cq_N(m[2]), cq_N(m[3]))
        ents = cq_list(["(%s, %s)" % (cq_bytes(t), sentry(m)) for t, m in c["entries"]])
        renders = c.get("renders") or [None] * len(c["steps"])
        steps = []
        for s, r in zip(c["steps"], renders):
            rb = self.cq_hexbytes(r or "")
            if s[0] == "C":
                over = s[3] if len(s) > 3 else None
                ov = "None" if not over else "(Some (%s, %s))" % (cq_N(over[0]), self.cq_target(over[1]))
                steps.append("SConn %s %s %s %s" % (self.cq_ip(*seen(c["listen"], s[1])), rb,
                                                     cq_list([self.cq_target(r) for r in s[2]]), ov))
            elif s[0] == "B":
                steps.append("SBurst %s %s %s %s" % (cq_N(s[1]), self.cq_ip(*seen(c["listen"], s[2])), rb,
                                                      self.cq_target(["G", s[3], s[4] if len(s) > 4 else None])))
            elif s[0] == "I":
                steps.append("SInc")
            else:
                steps.append("SFault %s %s" % (cq_N("GHR".index(s[0])), self.cq_ip(*seen(c["listen"], s[1]))))
        return "(CServe %s %s)" % (ents, cq_list(steps))

    def coq_out(self, c, o):
        if "panic" in o:
            return "OPanic"
        if "builderr" in o:
            return "OBuildErr"
        if c["k"] == "E":
            std = "None" if o["std"] is None else "(Some %s)" % self.cq_ip(o["std"][0], o["std"][1])
            bits = "None" if o["bits"] is None else "(Some %s)" % cq_list([cq_bool(b == "1") for b in o["bits"]])
            return "(OEntry %s %s %s %s)" % (self.cq_netopt(o["lib"]), self.cq_netopt(o["built"]), std, bits)
        xs = []
        for t in o["steps"]:
            if t == "f":
                xs.append("OFault")
            elif t == "i":
                xs.append("OInc")
            else:
                # status 0 = no well-formed response at all; its "body" is the driver's error text, not data
                rl = cq_list(["(%s, %s)" % (cq_N(st), self.cq_hexbytes(b if st else "")) for st, b in t[1]])
                xs.append("%s %s" % ("OC" if t[0] == "c" else "OB", rl))
        return "(OServe %s)" % cq_list(xs)

    def signature(self, c, o):
        if c["k"] == "E" and "panic" not in o and o["lib"] is None and o["built"] is None and o["std"] is None:
            return None
        c2 = {k: v for k, v in c.items() if k != "renders"}
        return [c2, o]

    def shrink(self, c):
        cands = []
        if c["k"] == "E":
            ps = c["peers"]
            for i in range(len(ps)):
                cands.append(dict(c, peers=ps[:i] + ps[i + 1:]))
            e = c["entry"]
            for i in range(len(e)):
                cands.append(dict(c, entry=e[:i] + e[i + 1:], intent=None))
            return cands
        st = c["steps"]
        for i in range(len(st)):
            cands.append(dict(c, steps=st[:i] + st[i + 1:], renders=None))
        en = c["entries"]
        for i in range(len(en)):
            cands.append(dict(c, entries=en[:i] + en[i + 1:], renders=None))
        for i, s in enumerate(st):
            if s[0] == "C" and len(s[2]) > 1:
                for j in range(len(s[2])):
                    cands.append(dict(c, steps=st[:i] + [["C", s[1], s[2][:j] + s[2][j + 1:]]] + st[i + 1:], renders=None))
            if s[0] == "B" and s[1] > 2:
                cands.append(dict(c, steps=st[:i] + [["B", 2, s[2], s[3]]] + st[i + 1:], renders=None))
        return cands[:40]


PROP = C18()
