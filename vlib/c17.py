"""C17 — span fields become labels: programs of NewSpan/Record/Enter/Exit/Drop/Emit on 1-3 threads
against real tracing + Registry + MetricsLayer + TracingContext over a logging recorder."""
import itertools
import struct
from .core import Prop, cq_N, cq_Z, cq_bool, cq_list, cq_opt, cq_bytes, cq_pair

ASCII_PALETTE = ["a", "b", "c", "d", "e"]
MNAMES = ["m", "n"]
STRS = ["", "x", "y", "aa", "true", "1", "7", "-5", "é"]
USTRS = ["e\u0301", "größe", "😀", "名", "É"]          # further label/field values (multi-byte)
# Field / label / allow-list names beyond ASCII.  The code compares names as Rust `str`s, i.e. byte-for-byte on the UTF-8
# encoding (no normalisation, no case folding); the model compares the same byte sequences.  Groups are confusable sets:
# names that differ only in normalisation form, case, compatibility mapping, or that share a byte length with a different
# character count (and vice versa).
UGROUPS = [
    ["é", "e\u0301", "É", "e", "E\u0301"],                 # NFC / NFD / case: 2B1c, 3B2c, 2B1c, 1B1c, 3B2c
    ["größe", "grösse", "GRÖSSE", "große", "gro\u0308ße"],  # 7B5c, 6B6c, 7B6c, 6B5c, 8B6c
    ["ß", "ss", "ẞ", "s", "ſ"],                             # 2B1c, 2B2c, 3B1c, 1B1c, 2B1c
    ["😀", "abcd", "éé", "名a", "😀a"],                      # 4B1c, 4B4c, 4B2c, 4B2c, 5B2c
    ["名", "名前", "abc", "名\u3099", "ａ"],                  # 3B1c, 6B2c, 3B3c, 6B2c (combining dakuten), 3B1c (fullwidth a)
    ["K", "\u212a", "k", "ﬁ", "fi"],                        # KELVIN SIGN vs K, ligature vs letters
    ["", "a", "é", "名", "😀"],                              # empty name; 1 char each, 0..4 bytes
    ["a", "A", "а", "á", "a\u0301"],                        # Latin a / A / Cyrillic а / precomposed / combining
    ["user.id", "user.íd", "user", "id", "user.id\u200b"],  # dotted names, zero-width space suffix
]
UPOOL = sorted({n for g in UGROUPS for n in g})
I64_MIN, I64_MAX, U64_MAX = -(1 << 63), (1 << 63) - 1, (1 << 64) - 1
I128_MIN, I128_MAX, U128_MAX = -(1 << 127), (1 << 127) - 1, (1 << 128) - 1
# boundary magnitudes per Visit entry point
POOL_I64 = [0, 1, -1, 7, -5, I64_MIN, I64_MAX, I64_MIN + 1, 1 << 32, -(1 << 31)]
POOL_U64 = [0, 1, 7, U64_MAX, 1 << 63, (1 << 63) - 1, 1 << 32]
POOL_I128 = [0, 1, -1, 7, I128_MIN, I128_MAX, I128_MIN + 1, I64_MIN - 1, I64_MAX + 1, I64_MIN, U64_MAX, 1 << 64, -(1 << 64), 1 << 100]
POOL_U128 = [0, 1, 7, U128_MAX, 1 << 127, (1 << 127) - 1, (1 << 127) + 1, 1 << 64, U64_MAX, I64_MAX + 1,
             0x9F3C2A10D4E54B7A8C6E0123456789AB, 0x1F3C2A10D4E54B7A8C6E0123456789AB]      # UUID-like, top bit set / clear
POOL_SMALL = [["i8", -128], ["i8", 127], ["i16", -32768], ["i32", -(1 << 31)], ["i32", (1 << 31) - 1], ["isize", I64_MIN], ["isize", -1],
              ["u8", 255], ["u8", 0], ["u16", 65535], ["u32", (1 << 32) - 1], ["usize", U64_MAX], ["i32", 7], ["u8", 7]]
def _bits(x):
    return struct.unpack("<Q", struct.pack("<d", x))[0]
POOL_F64 = [_bits(x) for x in (0.0, -0.0, 1.0, -1.0, 0.1, 1.5, 7.0, float("inf"), float("-inf"), 1.7976931348623157e308, 2.2250738585072014e-308,
                               5e-324, 1e16, 9999999999999998.0, 1e-4, 9.999e-5, 1e21, 9007199254740992.0, 9223372036854775808.0, 1e-7,
                               123456789.125, -1e300, 0.30000000000000004)] + [0x7ff8000000000000, 0xfff8000000000001, 0x7ff0000000000001]   # NaNs
POOL_F32 = [0x3dcccccd, 0x7fc00000, 0xff800000, 0x80000000, 0x3fc00000, 0x7f7fffff, 0x00000001]   # 0.1f32, NaN, -inf, -0.0, 1.5, MAX, min subnormal
POOL_BYTES = ["", "00", "ff", "00ff10", "616263", "000102030405060708090a0b0c0d0e0f101112131415161718191a1b1c1d1e1f"]
POOL_ERR = ["oops", "", "io: é", "two\nlines", '"quoted"']
POOL_DEBUG = ["x", "", "a\"b", "1", "line1\nline2", "tab\there", "back\\slash", "it's", "é名😀", "e\u0301", "\0", "\x1b[0m", "7"]
POOL_DISPLAY = ["x", "1", "true", "é", "名", "multi\nline", 'q"uote', ""]


def xh(s):
    return "x" + s.encode("utf-8").hex()


def unxh(s):
    assert s.startswith("x")
    return bytes.fromhex(s[1:]).decode("utf-8")


def debug_str(s):
    """<str as Debug>: quotes, \\-escapes, \\n \\t \\r \\0, \\u{..} for other controls and for grapheme-extending marks (U+0301);
    the single quote and printable non-ASCII stay as they are"""
    out = '"'
    for ch in s:
        o = ord(ch)
        if ch == '"':
            out += '\\"'
        elif ch == "\\":
            out += "\\\\"
        elif ch == "\n":
            out += "\\n"
        elif ch == "\t":
            out += "\\t"
        elif ch == "\r":
            out += "\\r"
        elif ch == "\0":
            out += "\\0"
        elif o < 0x20 or o == 0x7f or o == 0x301:
            out += "\\u{%x}" % o
        else:
            out += ch
    return out + '"'


def rust_f64_debug(x):
    """<f64 as Debug> of Rust >= 1.58: shortest round-trip digits, exponent form iff |x| >= 1e16 or 0 < |x| < 1e-4"""
    if x != x:
        return "NaN"
    if x == float("inf"):
        return "inf"
    if x == float("-inf"):
        return "-inf"
    r = repr(x)
    if "e" in r:
        m, e = r.split("e")
        if m.endswith(".0"):
            m = m[:-2]
        return "%se%d" % (m, int(e))
    return r


def f64_of_bits(b):
    return struct.unpack("<d", struct.pack("<Q", b))[0]


def f32_of_bits(b):
    return struct.unpack("<f", struct.pack("<I", b))[0]


SIGNED_SMALL = {"i8": 8, "i16": 16, "i32": 32, "isize": 64}
UNSIGNED_SMALL = {"u8": 8, "u16": 16, "u32": 32, "usize": 64}


def render(v):
    """python rendering of a typed value: the oracle for the Debug/Display/ryu forms (VDebug/VError data); for the
    types the Coq model renders itself (str, bool, 64- and 128-bit integers, bytes) it is used for nothing but statistics"""
    t, x = v
    if t == "e" or (t == "q" and x is None):
        return None
    if t in ("s", "S", "p", "r", "R"):
        return x
    if t == "b":
        return "true" if x else "false"
    if t in ("i", "u", "I", "U", "Z", "z", "W", "q"):
        return str(x)
    if t == "t":
        return str(x[1])
    if t == "d":
        return debug_str(x)
    if t == "o":
        return "None" if x is None else "Some(%d)" % x
    if t == "f":
        return rust_f64_debug(x / 2.0)
    if t == "F":
        return rust_f64_debug(f64_of_bits(x))
    if t == "g":
        return rust_f64_debug(f32_of_bits(x))
    if t == "y":
        return "[" + " ".join("%02x" % b for b in bytes.fromhex(x)) + "]"
    raise ValueError(t)


def val_tok(v):
    t, x = v
    if t == "e":
        return "e"
    if t in ("s", "S", "d", "p", "r", "R"):
        return t + x.encode("utf-8").hex()
    if t == "b":
        return "b1" if x else "b0"
    if t in ("o", "q"):
        return t + "n" if x is None else "%s%d" % (t, x)
    if t == "t":
        return "t%s.%d" % (x[0], x[1])
    if t == "F":
        return "F%016x" % x
    if t == "g":
        return "g%08x" % x
    if t == "y":
        return "y" + x
    return "%s%d" % (t, x)


def cq_val(v):
    t, x = v
    if t == "e" or (t == "q" and x is None):
        return "VEmpty"
    if t in ("s", "S"):
        return "VStr %s" % cq_bytes(x)
    if t == "b":
        return "VBool %s" % cq_bool(x)
    if t in ("i", "z", "W", "q"):
        return "VI64 %s" % cq_Z(x)
    if t == "u":
        return "VU64 %s" % cq_N(x)
    if t == "t":
        return ("VI64 %s" % cq_Z(x[1])) if x[0] in SIGNED_SMALL else ("VU64 %s" % cq_N(x[1]))
    if t == "I":
        return "VI128 %s" % cq_Z(x)
    if t in ("U", "Z"):
        return "VU128 %s" % cq_N(x)
    if t == "y":
        return "VBytes %s" % cq_bytes(bytes.fromhex(x))
    if t in ("r", "R"):
        return "VError %s" % cq_bytes(x)
    return "VDebug %s" % cq_bytes(render(v))


ENTRY = {"s": "record_str", "S": "record_str", "b": "record_bool", "i": "record_i64", "z": "record_i64", "W": "record_i64", "q": "record_i64",
         "u": "record_u64", "I": "record_i128", "U": "record_u128", "Z": "record_u128", "f": "record_f64", "F": "record_f64", "g": "record_f64",
         "y": "record_bytes", "r": "record_error", "R": "record_error", "d": "record_debug", "p": "record_debug", "o": "record_debug", "e": "(none)"}


def value_class(v):
    """(Visit entry point, magnitude / shape class) of a typed value, for the coverage statistics"""
    t, x = v
    if t == "t":
        return ("record_i64" if x[0] in SIGNED_SMALL else "record_u64", "%s %s" % (x[0], "boundary" if abs(x[1]) > 100 or x[1] in (0, -128) else "small"))
    ep = ENTRY[t]
    if t == "q" and x is None:
        return ("(none)", "Option::None")
    if t == "e":
        return ("(none)", "Empty")
    if ep in ("record_i64", "record_u64", "record_i128", "record_u128"):
        n = x
        if n == 0:
            c = "0"
        elif n in (1, -1):
            c = "+-1"
        elif n in (I64_MIN, I64_MAX, U64_MAX, I128_MIN, I128_MAX, U128_MAX, 1 << 127, 1 << 64, 1 << 63, (1 << 63) - 1):
            c = {I64_MIN: "i64::MIN", I64_MAX: "i64::MAX", U64_MAX: "u64::MAX", I128_MIN: "i128::MIN", I128_MAX: "i128::MAX = 2^127-1",
                 U128_MAX: "u128::MAX", 1 << 127: "2^127", 1 << 64: "2^64", 1 << 63: "2^63"}[n]
        elif n >= (1 << 127):
            c = ">= 2^127 (other)"
        elif abs(n) >= (1 << 64):
            c = "beyond 64 bit (other)"
        elif abs(n) >= (1 << 31):
            c = "beyond 32 bit (other)"
        else:
            c = "small"
        return (ep, c)
    if ep == "record_f64":
        f = x / 2.0 if t == "f" else (f64_of_bits(x) if t == "F" else f32_of_bits(x))
        if f != f:
            c = "NaN"
        elif f in (float("inf"), float("-inf")):
            c = "+-inf"
        elif f == 0:
            c = "-0.0" if struct.pack("<d", f)[7] & 0x80 else "0.0"
        elif abs(f) >= 1e16 or abs(f) < 1e-4:
            c = "exponent form"
        else:
            c = "decimal form"
        return (ep, c + (" (f32)" if t == "g" else ""))
    if ep == "record_bool":
        return (ep, str(x).lower())
    if ep == "record_bytes":
        return (ep, "empty" if not x else "%d bytes" % (len(x) // 2))
    s_ = x if isinstance(x, str) else ("None" if x is None else "Some")
    if s_ == "":
        c = "empty"
    elif any(ch in s_ for ch in '"\n\t\\\0\x1b'):
        c = "quotes / newlines / escapes"
    elif any(ord(ch) > 127 for ch in s_):
        c = "non-ASCII"
    else:
        c = "ASCII"
    return (ep, {"d": "?str ", "p": "%str ", "o": "?Option ", "S": "String ", "R": "Send+Sync "}.get(t, "") + c)


def cq_fields(fs):
    return cq_list(["(%s, %s)" % (cq_bytes(k), cq_val(v)) for k, v in fs])


def cq_labels(ls):
    return cq_list(["(%s, %s)" % (cq_bytes(k), cq_bytes(v)) for k, v in ls])


def cq_filter(f):
    if f[0] == "all":
        return "FAll"
    if f[0] == "allow":
        return "(FAllow %s)" % cq_list([cq_bytes(n) for n in f[1]])
    o = lambda x: "None" if x is None else "(Some %s)" % cq_bytes(x)
    return "(FTable %s %s)" % (cq_bool(f[1]), cq_list(["(%s, %s, %s, %s)" % (o(m), o(k), o(v), cq_bool(r)) for m, k, v, r in f[2]]))


def filter_tok(f):
    if f[0] == "all":
        return "A"
    if f[0] == "allow":
        return "L:" + ",".join(xh(n) for n in f[1])
    o = lambda x: "*" if x is None else xh(x)
    return "T:%d:%s" % (1 if f[1] else 0, ",".join("%s/%s/%s/%d" % (o(m), o(k), o(v), 1 if r else 0) for m, k, v, r in f[2]))


class C17(Prop):
    pid = "C17"
    pkg = "htrace"
    binname = "c17"
    quick_cases = 2500
    thorough_cases = 40000
    shard = 160
    rule = ("random programs (4-33 events; directed families up to ~55) of NewSpan/Record/Enter/Exit/Drop/Emit on 1-3 threads. Names: every case "
            "draws 5 names (4 usable as span fields, all 5 as metric label / allow-list / table-rule names) from a palette: 55% ASCII {a..e} (spans "
            "then come from 65 static span! callsites, every ordered selection of distinct names from {a,b,c,d}), else a Unicode palette (9 confusable "
            "groups: NFC/NFD, case, compatibility forms, equal byte length with different char count and vice versa, 1-4 byte scalars, combining "
            "marks, the empty name, dotted names; or 5 names sampled from their union), with callsites built at run time from leaked names. Values: "
            "every Visit entry point of tracing-core 0.1.33 (Empty, &str/String, bool, i64, u64, small ints, NonZero, Wrapping, Option<T>, i128, u128, "
            "f64 by bit pattern incl. NaN/+-inf/-0.0/exponent forms, f32, bytes, errors, ?Debug, %Display) with boundary magnitudes (0, +-1, "
            "i64/u64/i128/u128 MIN/MAX, 2^63, 2^64, 2^127, 2^127-1, UUID-like) and strings incl. empty, multi-byte, quotes/newlines/escapes; the "
            "per-run distribution is in coverage.value_distribution. Parents contextual/root/explicit; metric labels with duplicates allowed; filters "
            "IncludeAll / Allowlist (palette entries, plus entries no span carries) / first-match table predicate. Every 6th case is one of 9 directed "
            "families (same name on every level of a deep chain, late records, duplicate enters, out-of-order exits, handles dropped while entered, "
            "everything filtered out, own labels covering all span fields, cross-thread spans, explicit parents, value routes = creation / inherited / "
            "recorded later, allow-list exactness over confusable names); a case is non-trivial if at least one emitted key differs from the "
            "metric's own; distinct = distinct (case, outputs)")
    design_ref = "DESIGN.md 4 C17"
    technique = ("Coq proof: refinement of the copy-at-creation label maps to a declarative lookup over the event history, and the "
                 "per-name precedence / no-duplicates / unchanged / thread-locality clauses of enhance_key for all programs, filters and "
                 "label sets; differential correspondence against real tracing + tracing-subscriber Registry + MetricsLayer + TracingContext")
    level_text = ("Theorems (Coq, for every resolved history = every prefix of every program, any span forest/depth, shared names, late records, "
                  "every filter predicate, every own-label list): the label map the layer stores on a span (own fields, parent's map copied at "
                  "creation without overwriting, records overwriting) answers every name lookup exactly as a declarative lookup over the event "
                  "history and never repeats a name (C17_eager_equals_declarative, C17_stored_map_names_unique); the key handed to the inner recorder "
                  "carries, per name, the metric's own value, else the visible span value if the filter admits it, else nothing (C17_precedence, "
                  "with inner-over-outer / later-over-earlier / parent-as-of-creation as C17_lookup_rules); distinct own names give distinct result "
                  "names; no current span, no visible field, or (given distinct own names) everything filtered out leave the key identical; the "
                  "current span of a thread is unaffected by other threads' enter/exit/emit and the key is a function of what is visible at it. "
                  "The executable form of the property (spec_ok, order-insensitive, per name) is proved to hold of the model for all programs and its "
                  "Prop-level meaning is proved (C17_spec_ok_sound/C17_emit_ok_sound). Model and real code are run on the same generated programs each run "
                  "and compared exactly (names, values and label order).")
    level_note = ("Trusted: Coq kernel; hand-written model tied by differential runs, not by translation. The registry half of the model (per-thread span "
                  "stack with tracing-subscriber's duplicate-entry rule, parent selection root/contextual/explicit, handle liveness, undeclared record "
                  "names ignored) is third-party behaviour: it is shared by model and specification, so the theorems are relative to it and only the "
                  "correspondence runs tie it to tracing-subscriber 0.3.19. Label ORDER is modelled (IndexMap semantics) and compared exactly, but no "
                  "theorem constrains it: an order-only change is reported as a correspondence break, not as a property failure. Thread locality is "
                  "stated in two halves (current span per thread; key as a function of the visible fields) rather than as one non-interference theorem "
                  "over programs; threads are executed one event at a time, data races are out of scope. Not modelled: MetricsLayer not installed / "
                  "downcast failing (key unchanged), per-layer filters, span closing (the harness drops handles and exits spans, nothing observable "
                  "depends on it). The label maps live in a process-wide lockfree object pool (32-slot pages, reset hook on return): the model has no pool "
                  "(a span's labels are a function of its own fields and its ancestors'), so pooling is exercised, not modelled — by deep/wide trees "
                  "whose maps cross IndexMap's capacity steps, closed and followed by more simultaneously alive small spans than pool slots were used. "
                  "on_record's branch for a span without Labels is modelled but unreachable through the real layer.")
    assumptions = [
        "span handles are used through tracing's public API (span!, Span::record_all, Dispatch::enter/exit); per-layer filters of tracing-subscriber are not used",
        "renderings modelled in Coq: str, bool, i64/u64 (itoa = decimal Display), i128/u128 (the default record_i128/u128 -> record_debug, <i128/u128 as Debug> = decimal), bytes (tracing-core HexBytes); passed to the model as data (formatting oracle computed in python): f64/f32 Debug text, ?str / ?Option Debug text, %str, the Display text of errors",
        "field names, label names, allow-list entries and values are UTF-8 byte strings compared byte-for-byte (Rust str equality: no normalisation, no case folding); the model compares the same byte sequences",
        "threads run one event at a time (the harness serialises them over channels); the property concerns which span is current per thread, not data races",
    ]
    trusted_extra = [
        "tracing-subscriber 0.3.19 Registry (span stack per thread, parent selection, span lifetime), tracing 0.1.41 span!/ValueSet, indexmap 2.8 IndexMap, lockfree-object-pool: exercised; the span-stack/parent rules are modelled by Model.reg_step, which the specification shares",
    ]

    # ------------------------------------------------------------------ generator
    def set_palette(self, rng, force_unicode=False):
        """5 names per case: self.N (4, usable as span fields) and self.L (all 5, label / allow-list / rule names)"""
        if not force_unicode and rng.below(100) < 55:
            self.uni, pal = False, list(ASCII_PALETTE)
        elif rng.chance(2, 3):
            self.uni, pal = True, rng.shuffle(rng.pick(UGROUPS))
        else:
            self.uni, pal = True, rng.shuffle(UPOOL)[:5]
        self.L, self.N = pal, pal[:4]
        self.M = ["m", "µ"] if self.uni else list(MNAMES)

    def rand_val(self, rng, allow_empty=True):
        if allow_empty and rng.below(100) < 25:
            return ["e", None]
        strs = STRS + USTRS if self.uni or rng.chance(1, 6) else STRS
        kind = rng.weighted([(17, "s"), (3, "S"), (6, "b"), (10, "i"), (8, "u"), (7, "I"), (9, "U"), (4, "t"), (2, "Z"), (1, "z"), (1, "W"),
                             (2, "q"), (6, "F"), (2, "f"), (2, "g"), (4, "y"), (3, "r"), (2, "R"), (5, "d"), (3, "p"), (3, "o")])
        if kind in ("s", "S"):
            return [kind, rng.pick(strs)]
        if kind == "b":
            return ["b", rng.chance(1, 2)]
        if kind == "i":
            return ["i", rng.pick(POOL_I64 + [rng.range(-20, 20)])]
        if kind == "u":
            return ["u", rng.pick(POOL_U64 + [rng.below(20)])]
        if kind == "I":
            return ["I", rng.pick(POOL_I128)]
        if kind == "U":
            return ["U", rng.pick(POOL_U128 + [rng.next() << 64 | rng.next()])]
        if kind == "t":
            return ["t", list(rng.pick(POOL_SMALL))]
        if kind == "Z":
            return ["Z", rng.pick([x for x in POOL_U128 if x > 0])]
        if kind == "z":
            return ["z", rng.pick([x for x in POOL_I64 if x != 0])]
        if kind == "W":
            return ["W", rng.pick(POOL_I64)]
        if kind == "q":
            return ["q", rng.pick([None, 5, I64_MIN, -1])]
        if kind == "F":
            return ["F", rng.pick(POOL_F64)]
        if kind == "f":
            return ["f", rng.range(-6, 6)]
        if kind == "g":
            return ["g", rng.pick(POOL_F32)]
        if kind == "y":
            return ["y", rng.pick(POOL_BYTES)]
        if kind in ("r", "R"):
            return [kind, rng.pick(POOL_ERR)]
        if kind == "d":
            return ["d", rng.pick(POOL_DEBUG)]
        if kind == "p":
            return ["p", rng.pick(POOL_DISPLAY)]
        return ["o", rng.pick([None, 1, -5, I64_MIN])]

    def rand_filter(self, rng):
        r = rng.below(100)
        if r < 40:
            return ["all"]
        if r < 75:
            k = rng.weighted([(1, 0), (3, 1), (3, 2), (2, 3), (1, 5)])
            names = rng.shuffle(self.L)[:k]
            if rng.chance(1, 2 if self.uni else 5):
                # entries no span of this case carries (in Unicode cases: confusable with ones it does)
                names += [rng.pick(UPOOL + ["abcdef", "zz"]) for _ in range(rng.range(1, 2))]
                names = rng.shuffle(names)
            return ["allow", names]
        rules = []
        for _ in range(rng.range(0, 3)):
            rules.append([rng.pick([None, None] + self.M), rng.pick([None] + self.L), rng.pick([None, None, None] + STRS[:6] + (USTRS[:2] if self.uni else [])), rng.chance(1, 2)])
        return ["table", rng.chance(1, 2), rules]

    def rand_fields(self, rng, p_empty=25):
        k = rng.weighted([(2, 0), (5, 1), (7, 2), (4, 3), (2, 4)])
        names = rng.shuffle(self.N)[:k]
        return [[n, self.rand_val(rng)] for n in names]

    def rand_labels(self, rng):
        k = rng.weighted([(3, 0), (4, 1), (4, 2), (2, 3)])
        if rng.chance(1, 8):
            names = [rng.pick(self.L) for _ in range(k)]     # duplicates possible
        else:
            names = rng.shuffle(self.L)[:k]
        vals = STRS[:6] + ["own"] + (USTRS if self.uni else [])
        return [[n, rng.pick(vals)] for n in names]

    def gen_random(self, rng):
        self.set_palette(rng)
        nthreads = rng.weighted([(5, 1), (3, 2), (2, 3)])
        filters = [self.rand_filter(rng) for _ in range(rng.range(1, 3))]
        evs = []
        created, alive = [], []
        stacks = [[] for _ in range(nthreads)]
        nid = 0
        for _ in range(rng.range(4, 30)):
            t = rng.below(nthreads)
            r = rng.below(100)
            if r < 25 or not created:
                if created and rng.chance(1, 30):
                    i = rng.pick(created)
                else:
                    i = nid
                    nid += 1
                pr = rng.below(100)
                if pr < 60:
                    par = "c"
                elif pr < 72:
                    par = "r"
                else:
                    par = rng.pick(created) if created and not rng.chance(1, 10) else rng.below(nid + 2)
                evs.append(["N", t, i, par, self.rand_fields(rng)])
                if i not in created:
                    created.append(i)
                    alive.append(i)
            elif r < 40:
                i = rng.pick(alive) if alive and not rng.chance(1, 12) else rng.below(nid + 1)
                k = rng.weighted([(6, 1), (3, 2), (1, 3)])
                fs = [[rng.pick(self.N), self.rand_val(rng, allow_empty=rng.chance(1, 6))] for _ in range(k)]
                evs.append(["R", t, i, fs])
            elif r < 60:
                i = rng.pick(alive[-3:]) if alive and not rng.chance(1, 10) else rng.below(nid + 1)
                evs.append(["E", t, i])
                if i in alive:
                    stacks[t].append(i)
            elif r < 72:
                if stacks[t] and not rng.chance(1, 6):
                    i = stacks[t].pop()
                else:
                    i = rng.below(nid + 1)
                    if i in stacks[t]:
                        stacks[t].reverse(); stacks[t].remove(i); stacks[t].reverse()
                evs.append(["X", t, i])
            elif r < 77:
                i = rng.pick(created)
                evs.append(["D", t, i])
                if i in alive:
                    alive.remove(i)
            else:
                evs.append(["M", t, rng.pick("cgh"), rng.pick(self.M), self.rand_labels(rng), rng.below(len(filters))])
        for t in range(nthreads):
            if rng.chance(2, 3):
                evs.append(["M", t, rng.pick("cgh"), rng.pick(self.M), self.rand_labels(rng), rng.below(len(filters))])
        return dict(filters=filters, events=evs)

    def gen_adversarial(self, rng):
        kind = min(rng.below(11), 9)
        self.set_palette(rng, force_unicode=(kind == 8))
        na, nb, nc, nd = self.N
        ne = self.L[4]
        filters = [["all"], self.rand_filter(rng)]
        evs = []
        M = lambda t, labels=None, f=None: ["M", t, rng.pick("cgh"), rng.pick(self.M), self.rand_labels(rng) if labels is None else labels, rng.below(2) if f is None else f]
        if kind == 0:
            # deep chain, the same names on every level, emissions at every depth, records on outer spans after children exist
            depth = rng.range(2, 6)
            for i in range(depth):
                fs = [[n, ["s", "L%d" % i] if rng.chance(2, 3) else ["e", None]] for n in rng.shuffle(self.N)[:rng.range(1, 3)]]
                evs += [["N", 0, i, "c", fs], ["E", 0, i], M(0)]
            for i in range(depth):
                evs += [["R", 0, i, [[rng.pick(self.N), ["s", "late%d" % i]]]], M(0, f=0)]
            for i in reversed(range(depth)):
                evs += [["X", 0, i], M(0, f=0)]
        elif kind == 1:
            # duplicate enters and out-of-order exits
            evs += [["N", 0, 0, "r", [[na, ["s", "A"]]]], ["N", 0, 1, "r", [[nb, ["s", "B"]], [na, ["e", None]]]]]
            for _ in range(rng.range(3, 10)):
                evs.append([rng.pick("EEX"), 0, rng.below(2)])
                evs.append(M(0, f=0))
                if rng.chance(1, 4):
                    evs.append(["N", 0, 2 + len(evs), "c", [[nc, ["i", len(evs)]]]])
        elif kind == 2:
            # handles dropped while entered; children created under a dropped-but-entered parent
            evs += [["N", 0, 0, "c", [[na, ["s", "A"]], [nb, ["e", None]]]], ["E", 0, 0], ["D", 0, 0], M(0, f=0),
                    ["R", 0, 0, [[nb, ["s", "never"]]]], ["N", 0, 1, "c", [[nc, ["u", 3]]]], ["N", 0, 2, 0, [[nd, ["b", True]]]],
                    ["E", 0, 1], M(0, f=0), ["X", 0, 0], M(0, f=0), ["E", 0, 2], M(0), ["X", 0, 1], ["X", 0, 2], M(0)]
            for i in range(3, 3 + rng.range(0, 4)):
                evs += [["N", 0, i, "c", self.rand_fields(rng)], ["E", 0, i], M(0), ["D", 0, i], ["X", 0, i]]
        elif kind == 3:
            # everything filtered out / own labels covering all span fields / duplicate own names
            filters = [["allow", []], ["table", False, []], ["allow", [ne]]]
            fs = [[n, ["s", "S" + n]] for n in rng.shuffle(self.N)[:rng.range(1, 4)]]
            evs += [["N", 0, 0, "c", fs], ["E", 0, 0]]
            for f in range(3):
                evs.append(M(0, f=f))
                evs.append(M(0, labels=[[n, "own"] for n, _ in fs], f=f))
                evs.append(M(0, labels=[[na, "o1"], [ne, "o2"], [na, "o3"]], f=f))
                evs.append(M(0, labels=[], f=f))
        elif kind == 4:
            # threads with different current spans, spans created on one thread and entered on another
            evs += [["N", 0, 0, "c", [[na, ["s", "T0"]]]], ["E", 0, 0], ["N", 1, 1, "c", [[na, ["s", "T1"]], [nb, ["i", 1]]]], ["E", 1, 1],
                    ["N", 0, 2, "c", [[nc, ["s", "child0"]]]], ["N", 1, 3, "c", [[nc, ["s", "child1"]]]], ["E", 1, 2], ["E", 0, 3],
                    ["E", 2, 0]]
            for _ in range(rng.range(3, 8)):
                evs.append(M(rng.below(3), f=0))
                if rng.chance(1, 2):
                    evs.append([rng.pick("EX"), rng.below(3), rng.below(4)])
                if rng.chance(1, 3):
                    evs.append(["R", rng.below(3), rng.below(4), [[rng.pick(self.N), self.rand_val(rng, False)]]])
        elif kind == 5:
            # all fields declared Empty, recorded later in various orders; records with repeated / undeclared names
            names = rng.shuffle(self.N)[:rng.range(2, 4)]
            evs += [["N", 0, 0, "c", [[n, ["e", None]] for n in names]], ["E", 0, 0], M(0, f=0)]
            for _ in range(rng.range(2, 6)):
                k = rng.range(1, 3)
                evs.append(["R", 0, 0, [[rng.pick(self.N), self.rand_val(rng, rng.chance(1, 5))] for _ in range(k)]])
                evs.append(M(0, f=0))
            evs += [["N", 0, 1, "c", [[n, ["e", None]] for n in rng.shuffle(self.N)[:2]]], ["E", 0, 1], M(0, f=0),
                    ["R", 0, 0, [[names[0], ["s", "after-child"]]]], M(0, f=0), ["R", 0, 1, [[rng.pick(self.N), ["s", "inner"]]]], M(0, f=0)]
        elif kind == 6:
            # explicit parents: other thread's span, a dropped handle, a not-yet-created id, itself
            evs += [["N", 0, 0, "r", [[na, ["s", "root"]], [nb, ["s", "rb"]]]], ["N", 1, 1, 0, [[nb, ["s", "kid"]]]],
                    ["E", 0, 1], M(0, f=0), ["D", 0, 0], ["N", 0, 2, 0, [[nc, ["s", "orphan"]]]], ["N", 0, 3, 7, [[nd, ["s", "nopar"]]]],
                    ["N", 0, 4, 4, [[nd, ["s", "self"]]]], ["E", 1, 2], M(1, f=0), ["E", 1, 3], M(1, f=0), ["E", 1, 4], M(1), ["N", 1, 5, 1, []],
                    ["E", 0, 5], M(0)]
        elif kind == 9:
            # size-dependent behaviour of reused objects: a deep and wide span tree (up to 14 levels x up to 5 fresh names per
            # level, so that the visible label count crosses 3/7/14/28/32/56/64), emissions on the way down, a late record at
            # the bottom; the whole tree is closed; then MORE simultaneously alive small spans than the tree had levels
            # (sometimes more than one 32-slot pool page), on the same and on other threads, with an emission inside each —
            # the label maps are pooled, and a later span must never see anything of a closed one
            nthreads = rng.range(1, 3)
            ta = rng.below(nthreads)
            sid = 0
            for _round in range(rng.weighted([(4, 1), (1, 2)])):
                depth = rng.pick([2, 3, 4, 6, 6, 7, 8, 8, 10, 12, 14, 16])
                wide = rng.chance(1, 2)
                ids, vis = [], 0
                for lvl in range(depth):
                    w = 5 if wide else rng.range(1, 5)
                    names = ["L%d_%d" % (lvl, j) for j in range(w)]
                    if rng.chance(1, 4):
                        names[-1] = rng.pick(self.N)                  # a name shared between levels: inner over outer
                    fs = [[n, ["e", None] if rng.chance(1, 8) else (["s", "v%d" % lvl] if rng.chance(3, 4) else self.rand_val(rng, False))] for n in names]
                    evs += [["N", ta, sid, "c" if rng.chance(4, 5) or not ids else ids[-1], fs], ["E", ta, sid]]
                    before, vis = vis, vis + sum(1 for _, v in fs if v[0] != "e")
                    if any(before < th <= vis for th in (4, 8, 15, 29, 33, 57, 65)) or rng.chance(1, 6):
                        evs.append(M(ta, labels=[] if rng.chance(2, 3) else None, f=0))
                    ids.append(sid)
                    sid += 1
                evs += [["R", ta, ids[-1], [["L%d_0" % (depth - 1), ["s", "late"]]]], M(ta, labels=[], f=rng.below(2))]
                for i in (reversed(ids) if rng.chance(3, 4) else rng.shuffle(ids)):
                    evs.append(["X", ta, i])
                for i in rng.shuffle(ids):
                    evs.append(["D", rng.below(nthreads), i])
                small = []
                for _ in range(depth + 2 + rng.pick([0, 0, 3, 10, 25])):
                    t = ta if rng.chance(1, 2) else rng.below(nthreads)
                    r = rng.below(10)
                    fs = [] if r < 4 else [[rng.pick(self.N), self.rand_val(rng, False) if r < 8 else ["e", None]]]
                    evs.append(["N", t, sid, "r" if rng.chance(1, 2) else "c", fs])
                    small.append((sid, t, fs))
                    sid += 1
                for i, t, fs in small:
                    evs += [["E", t, i], M(t, labels=[] if rng.chance(3, 4) else None, f=0)]
                    if fs and rng.chance(1, 4):
                        evs += [["R", t, i, [[fs[0][0], self.rand_val(rng, False)]]], M(t, labels=[], f=0)]
                    evs.append(["X", t, i])
                for i, t, _ in small:
                    evs.append(["D", t, i])
        elif kind == 8:
            # allow-list exactness over confusable names: nested spans carrying names of the palette, allow-lists made of
            # members, confusable non-members and names of other lengths; emissions under every filter at every depth
            pool_extra = [n for n in UPOOL if n not in self.L]
            filters = []
            for _ in range(3):
                names = rng.shuffle(self.L)[:rng.range(1, 3)] + [rng.pick(pool_extra) for _ in range(rng.range(0, 2))]
                filters.append(["allow", rng.shuffle(names)])
            depth = rng.range(1, 3)
            for i in range(depth):
                fs = [[n, ["s", "v%d" % i] if rng.chance(3, 4) else ["e", None]] for n in rng.shuffle(self.N)[:rng.range(1, 4)]]
                evs += [["N", 0, i, "c", fs], ["E", 0, i]]
                for f in range(3):
                    evs.append(M(0, labels=[], f=f))
                if rng.chance(1, 2):
                    evs.append(M(0, f=rng.below(3)))
            evs += [["R", 0, depth - 1, [[rng.pick(self.N), ["s", "late"]]]]]
            for f in range(3):
                evs.append(M(0, labels=[[rng.pick(self.L), "own"]], f=f))
        else:
            # value routes: boundary values of every Visit entry point, given at span creation, inherited by a child span
            # (emission inside the child, which does not carry the name itself) and recorded later (on the child, and on
            # the parent after the child exists, which the child must not see)
            pools = [["i", x] for x in POOL_I64] + [["u", x] for x in POOL_U64] + [["I", x] for x in POOL_I128] + [["U", x] for x in POOL_U128] + \
                    [["t", list(x)] for x in POOL_SMALL] + [["F", x] for x in POOL_F64] + [["g", x] for x in POOL_F32] + [["y", x] for x in POOL_BYTES] + \
                    [["r", x] for x in POOL_ERR] + [["R", x] for x in POOL_ERR[:2]] + [["d", x] for x in POOL_DEBUG] + [["p", x] for x in POOL_DISPLAY] + \
                    [["s", x] for x in STRS + USTRS] + [["S", "owned"], ["b", True], ["b", False], ["o", 7], ["o", None], ["q", 5], ["q", None],
                                                        ["W", -1], ["z", I64_MIN], ["Z", U128_MAX], ["Z", 1 << 127], ["f", 14]]
            i = 0
            for _ in range(rng.range(2, 4)):
                v, v2, v3 = rng.pick(pools), rng.pick(pools), rng.pick(pools)
                n0, n1 = rng.shuffle(self.N)[:2]
                evs += [["N", 0, i, "r", [[n0, v], [n1, ["e", None]]]], ["E", 0, i], M(0, labels=[], f=0),
                        ["N", 0, i + 1, "c", [[n1, ["e", None]]]], ["E", 0, i + 1], M(0, labels=[], f=0),
                        ["R", 0, i + 1, [[n1, v2]]], M(0, labels=[], f=0),
                        ["R", 0, i, [[n0, v3]]], M(0, f=0), ["X", 0, i + 1], M(0, labels=[], f=0), ["X", 0, i]]
                self._inherited.append(v)
                i += 2
        return dict(filters=filters, events=evs)

    _dist = None
    _pool = None
    _inherited = []

    def gen(self, rng, n):
        cases = []
        self._inherited = []
        for i in range(n):
            cases.append(self.gen_adversarial(rng) if i % 6 == 5 else self.gen_random(rng))
        if self._dist is None:          # statistics of the main batch only (not of the directed-search / shrink batches)
            self._dist = self.value_distribution(cases, self._inherited)
            self._pool = self.pool_pressure(cases)
        return cases

    @staticmethod
    def value_distribution(cases, inherited):
        """how often each (Visit entry point, magnitude class) occurs: at span creation, in a later record, and as the value a child
        span inherits in the 'value routes' family (random nesting adds more inherited values that are not counted here)"""
        d = {"at_creation": {}, "recorded_later": {}, "inherited_by_child (value-routes family only)": {}}
        def add(where, v):
            ep, c = value_class(v)
            k = "%s | %s" % (ep, c)
            d[where][k] = d[where].get(k, 0) + 1
        for c in cases:
            for e in c["events"]:
                if e[0] == "N":
                    for _, v in e[4]:
                        add("at_creation", v)
                elif e[0] == "R":
                    for _, v in e[3]:
                        add("recorded_later", v)
        for v in inherited:
            add("inherited_by_child (value-routes family only)", v)
        return {k: dict(sorted(x.items())) for k, x in d.items()}

    @staticmethod
    def pool_pressure(cases):
        """statistics only (a python replica of the span bookkeeping, counting names, not values): histogram of the number of
        labels visible at the current span per emission, bucketed at IndexMap's capacity steps (3, 7, 14, 28, 56) and at 32 / 64;
        number of spans created after a 'big' span (more than 28 visible labels) was closed, on the thread that created the big
        span and on other threads; largest number of simultaneously alive spans in a case (the pool hands out 32 slots per page)"""
        buckets = [(0, 0), (1, 3), (4, 7), (8, 14), (15, 28), (29, 32), (33, 56), (57, 64), (65, 10 ** 9)]
        hist = {("%d-%d" % b if b[1] < 10 ** 9 else "65+") if b[0] != b[1] else str(b[0]): 0 for b in buckets}
        def bucket(n):
            for lo, hi in buckets:
                if lo <= n <= hi:
                    return ("%d-%d" % (lo, hi) if hi < 10 ** 9 else "65+") if lo != hi else str(lo)
        after_same = after_other = cases_with_big = 0
        max_alive = 0
        alive_hist = {"1-8": 0, "9-16": 0, "17-32": 0, "33+": 0}
        for c in cases:
            h, maps, stacks = {}, {}, {}
            big_closed_by = set()      # creating threads of big spans that are closed by now
            peak = 0
            def cur(t):
                for i, dup in reversed(stacks.get(t, [])):
                    if not dup:
                        return i
                return None
            def closed(i):
                x = h[i]
                if x["alive"] or any(i == j for st in stacks.values() for j, _ in st):
                    return False
                return all(closed(k) for k, y in h.items() if y["parent"] == i)
            for e in c["events"]:
                k, t = e[0], e[1]
                if k == "N":
                    i = e[2]
                    if i in h:
                        continue
                    par = cur(t) if e[3] == "c" else (None if e[3] == "r" else (e[3] if e[3] in h and h[e[3]]["alive"] else None))
                    for j, x in h.items():
                        if x["big"] and not x["counted"] and closed(j):
                            x["counted"] = True
                            big_closed_by.add(x["tid"])
                    if big_closed_by:
                        if t in big_closed_by:
                            after_same += 1
                        else:
                            after_other += 1
                    m = set(maps.get(par, ())) | {n for n, v in e[4] if v[0] != "e" and not (v[0] == "q" and v[1] is None)}
                    maps[i] = m
                    h[i] = dict(alive=True, decl={n for n, _ in e[4]}, parent=par, tid=t, big=len(m) > 28, counted=False)
                    peak = max(peak, sum(1 for j in h if not closed(j)))
                elif k == "R":
                    i = e[2]
                    if i in h and h[i]["alive"]:
                        maps[i] |= {n for n, v in e[3] if n in h[i]["decl"] and v[0] != "e" and not (v[0] == "q" and v[1] is None)}
                        if len(maps[i]) > 28:
                            h[i]["big"] = True
                elif k == "E":
                    if e[2] in h and h[e[2]]["alive"]:
                        st = stacks.setdefault(t, [])
                        st.append((e[2], any(j == e[2] for j, _ in st)))
                elif k == "X":
                    st = stacks.get(t, [])
                    for idx in range(len(st) - 1, -1, -1):
                        if st[idx][0] == e[2]:
                            del st[idx]
                            break
                elif k == "D":
                    if e[2] in h:
                        h[e[2]]["alive"] = False
                else:
                    i = cur(t)
                    hist[bucket(len(maps[i]) if i is not None else 0)] += 1
            if any(x["big"] for x in h.values()):
                cases_with_big += 1
            max_alive = max(max_alive, peak)
            if peak:
                alive_hist["1-8" if peak <= 8 else "9-16" if peak <= 16 else "17-32" if peak <= 32 else "33+"] += 1
        return {"visible_labels_per_emission": hist, "cases_with_a_span_seeing_more_than_28_labels": cases_with_big,
                "spans_created_after_a_big_span_closed": {"on_the_big_spans_thread": after_same, "on_another_thread": after_other},
                "peak_simultaneously_alive_spans_per_case": alive_hist, "max_simultaneously_alive_spans": max_alive}

    def extra_checks(self, ctx):
        ctx["coverage"]["value_distribution"] = self._dist
        ctx["coverage"]["pool_pressure"] = self._pool
        return []

    # ------------------------------------------------------------------ plumbing
    def impl_line(self, c):
        toks = []
        for e in c["events"]:
            k = e[0]
            if k == "N":
                par = e[3] if e[3] in ("c", "r") else "p%d" % e[3]
                toks.append("N%d:%d:%s:%s" % (e[1], e[2], par, ",".join("%s=%s" % (xh(n), val_tok(v)) for n, v in e[4])))
            elif k == "R":
                toks.append("R%d:%d:%s" % (e[1], e[2], ",".join("%s=%s" % (xh(n), val_tok(v)) for n, v in e[3])))
            elif k in ("E", "X", "D"):
                toks.append("%s%d:%d" % (k, e[1], e[2]))
            else:
                toks.append("M%d:%s:%s:%s:%d" % (e[1], e[2], xh(e[3]), ",".join("%s=%s" % (xh(a), xh(b)) for a, b in e[4]), e[5]))
        return "%s | %s" % (";".join(filter_tok(f) for f in c["filters"]), " ".join(toks))

    def parse_out(self, c, line):
        if not line.startswith("ok"):
            return {"panic": line}
        keys = []
        for tok in line.split()[1:]:
            name, ls = tok.split(":")
            labels = []
            if ls:
                for kv in ls.split(","):
                    a, b = kv.split("=")
                    labels.append([a[1:], b[1:]])       # hex
            keys.append([name[1:], labels])
        return {"keys": keys}

    def coq_case(self, c):
        evs = []
        for e in c["events"]:
            k = e[0]
            if k == "N":
                par = {"c": "PCtx", "r": "PRoot"}.get(e[3]) or "(PExp %s)" % cq_N(e[3])
                evs.append("ENew %s %s %s %s" % (cq_N(e[1]), cq_N(e[2]), par, cq_fields(e[4])))
            elif k == "R":
                evs.append("ERec %s %s %s" % (cq_N(e[1]), cq_N(e[2]), cq_fields(e[3])))
            elif k == "E":
                evs.append("EEnter %s %s" % (cq_N(e[1]), cq_N(e[2])))
            elif k == "X":
                evs.append("EExit %s %s" % (cq_N(e[1]), cq_N(e[2])))
            elif k == "D":
                evs.append("EDrop %s %s" % (cq_N(e[1]), cq_N(e[2])))
            else:
                evs.append("EEmit %s %s %s %s" % (cq_N(e[1]), cq_bytes(e[3]), cq_labels(e[4]), cq_filter(c["filters"][e[5]])))
        return cq_list(evs)

    def coq_out(self, c, out):
        if "panic" in out:
            return "(@None (list key))"
        ks = []
        for name, labels in out["keys"]:
            ks.append('(hx "%s", %s)' % (name, cq_list(['(hx "%s", hx "%s")' % (a, b) for a, b in labels])))
        return "(Some %s)" % cq_list(ks)

    def signature(self, c, out):
        if "panic" in out:
            return [c, out]
        emits = [e for e in c["events"] if e[0] == "M"]
        if len(emits) != len(out["keys"]):
            return [c, out]
        changed = False
        for e, (name, labels) in zip(emits, out["keys"]):
            own = [[a.encode("utf-8").hex(), b.encode("utf-8").hex()] for a, b in e[4]]
            if labels != own:
                changed = True
        return [c, out] if changed else None

    def shrink(self, c):
        evs = c["events"]
        cands = []
        for size in (64, 32, 16, 8, 4, 2):                 # big programs: drop blocks first
            if len(evs) > 2 * size:
                for i in range(0, len(evs), size):
                    cands.append(dict(c, events=evs[:i] + evs[i + size:]))
        cands = cands[:120]
        for i in range(len(evs)):
            cands.append(dict(c, events=evs[:i] + evs[i + 1:]))
        for i, e in enumerate(evs):
            def rep(ne):
                cands.append(dict(c, events=evs[:i] + [ne] + evs[i + 1:]))
            if e[0] == "N":
                for j in range(len(e[4])):
                    rep(["N", e[1], e[2], e[3], e[4][:j] + e[4][j + 1:]])
                if e[3] != "r":
                    rep(["N", e[1], e[2], "r", e[4]])
            elif e[0] == "R":
                for j in range(len(e[3])):
                    if len(e[3]) > 1:
                        rep(["R", e[1], e[2], e[3][:j] + e[3][j + 1:]])
            elif e[0] == "M":
                for j in range(len(e[4])):
                    rep(["M", e[1], e[2], e[3], e[4][:j] + e[4][j + 1:], e[5]])
            if e[1] != 0:
                rep([e[0], 0] + e[2:])
        for fi, f in enumerate(c["filters"]):
            if f[0] != "all":
                cands.append(dict(c, filters=c["filters"][:fi] + [["all"]] + c["filters"][fi + 1:]))
        return cands


PROP = C17()
