"""C07 — Prometheus output reports exactly what was recorded, each sample once.

A case = a PrometheusBuilder configuration (global labels, quantiles, global buckets or summary
mode, per-metric bucket overrides, unit suffix) + a key table + a history of
register / update / describe / run_upkeep / render calls.  The driver runs the real recorder and
parses every render() output with a strict exposition reader into one record per sample line; the
Coq side evaluates the model (C07/Model.v) and the declarative specification (C07/Spec.v) on the
same history and compares renderings as multisets.  extra_checks adds a free-running stress
(4 recording threads || render/upkeep loop) judged here (count conservation)."""
import json
import os
import struct

from .core import Prop, cq_N, cq_Z, cq_bool, cq_list, cq_opt, cq_pair, run_impl, load_known, OUTDIR

UNITS = ["Count", "Percent", "Seconds", "Milliseconds", "Microseconds", "Nanoseconds", "Tebibytes", "Gibibytes",
         "Mebibytes", "Kibibytes", "Bytes", "TerabitsPerSecond", "GigabitsPerSecond", "MegabitsPerSecond",
         "KilobitsPerSecond", "BitsPerSecond", "CountPerSecond"]


# python copies of two sanitisers, used ONLY by the generator/shrinker to stay inside the property's
# precondition (the precondition itself is decided in Coq by wf_names)
def py_name(s, colon=True):
    def ok(c, first):
        if c.isascii() and (c.isalpha() or c == "_" or (colon and c == ":")):
            return True
        return (not first) and c.isascii() and c.isdigit()
    return "".join(c if ok(c, i == 0) else "_" for i, c in enumerate(s))


def py_esc(s, desc):
    out, pb = [], False
    for c in s:
        if c == "\n":
            out.append("\\n")
        elif c == '"' and not desc:
            pb = False
            out.append('\\"')
        elif c == "\\":
            if pb:
                out.append("\\\\")
            pb = not pb
        else:
            if pb:
                pb = False
                out.append("\\\\")
            out.append(c)
    if pb:
        out.append("\\\\")
    return "".join(out)


KINDS = {"c": "KC", "g": "KG", "r": "KR", "h": "KH"}
MK = {"F": "H.MFull", "P": "H.MPrefix", "S": "H.MSuffix"}

NAMES = ["a", "b", "a_b", "a-b", "a.b", "9x", "lat", "req:s", "é", "a_sum", "b_count", "lat_bucket", "x"]
LNAMES = ["l", "m", "k-1", "k_1", "k.1", "le_", "q", "host", "9", "é"]
LVALS = ["", "1", "2", "x", 'a"b', "\\", "é", "v w", "a\nb", '\\"', "a,b=c}"]
TEXTS = ["", "help", "first", "second", "a \\ b", 'say "hi"', "two\nlines", "été", "# TYPE x counter"]
QUANTS = ["0", "0.5", "0.9", "0.95", "0.99", "0.999", "1"]
BOUND_POOL = [-4, 0, 1, 2, 4, 10, 20, 40, 400, 4000]          # quarter units
SPECIAL_BITS = [0x0, 0x8000000000000000, 0x7ff0000000000000, 0xfff0000000000000, 0x7ff8000000000000,
                0x1, 0x7fefffffffffffff, 0x3fb999999999999a, 0x3fd5555555555555, 0x4340000000000001,
                0x0010000000000000, 0xc08f400000000000, 0x3ff0000000000001, 0x4415af1d78b58c40, 0x3e7ad7f29abcaf48]


def cq_str(s):
    if not s:
        return "(@nil N)"
    return '(cps (hx "%s"))' % "".join("%06x" % ord(ch) for ch in s)


def hx(s):
    return s.encode("utf-8").hex() if s else "-"


def cq_pairs(l):
    return cq_list([cq_pair(cq_str(k), cq_str(v)) for k, v in l])


# special float values of the "special values" family: token -> (text sent to the driver, Coq xnum term).
# inf / -inf / nan are modelled (xpinf / xninf / xnan).  -0.0, subnormals and huge finite values are FINITE values
# whose addition is not exact: they stand in the model for a quarter-exact number that compares with every bound
# (bounds are integers in quarter units) exactly as they do, and - except -0.0, which adds exactly nothing - are
# generated only where the sum is already +-inf / NaN, so that the expected sum does not depend on rounding.
SPECIAL_VALUES = {
    "inf": ("inf", "xpinf"), "-inf": ("-inf", "xninf"), "nan": ("NaN", "xnan"),
    "-0": ("-0.0", "(xfin 0%Z)"), "sub": ("5e-324", "(xfin 1%Z)"), "-sub": ("-5e-324", "(xfin 0%Z)"),
    "huge": ("1e300", "(xfin (2 ^ 200)%Z)"), "-huge": ("-1e300", "(xfin (- 2 ^ 200)%Z)"),
}
WILD = ("sub", "-sub", "huge", "-huge")


def val_txt(v):
    return SPECIAL_VALUES[v][0] if isinstance(v, str) else fq(v)


def val_coq(v):
    return SPECIAL_VALUES[v][1] if isinstance(v, str) else "(xfin %s)" % cq_Z(v)


def xclass_add(a, b):
    """IEEE class of a + b for classes in {'f','inf','-inf','nan'}"""
    if "nan" in (a, b) or {a, b} == {"inf", "-inf"}:
        return "nan"
    if "inf" in (a, b):
        return "inf"
    if "-inf" in (a, b):
        return "-inf"
    return "f"


def val_class(v):
    return v if v in ("inf", "-inf", "nan") else "f"


def special_ok(c):
    """wild finite values (subnormal, huge) only where the running sum is already +-inf / NaN; -0.0 never SET on a gauge"""
    keys = c["keys"]
    st = {}
    for o in c.get("ops", []):
        if o[0] not in ("S", "P", "M", "H") or o[1] >= len(keys):
            continue
        kind, v = keys[o[1]][0], o[2]
        if (o[0] == "H") != (kind == "h") or (o[0] != "H" and kind != "g"):
            continue                                  # skipped on both sides
        cur = st.get(o[1], "f")
        if v in WILD and cur == "f":
            return False
        if o[0] == "S":
            if v == "-0" or v in WILD:
                return False
            st[o[1]] = val_class(v)
        else:
            cls = val_class(v)
            if o[0] == "M":
                cls = {"inf": "-inf", "-inf": "inf"}.get(cls, cls)
            st[o[1]] = xclass_add(cur, cls)
    return True


def fq(q):
    """quarter units -> decimal text of the double q/4 (exact)"""
    return repr(q / 4.0)


def bits_of(x):
    return struct.unpack("<Q", struct.pack("<d", x))[0]


def float_of(bits):
    return struct.unpack("<d", struct.pack("<Q", bits))[0]


def canon(bits):
    """the same canonical form as C07/Model.v [canon]: the quarter-unit integer when the double is one
    (and not -0, |q| < 2^52), else the bit pattern"""
    x = float_of(bits)
    if x != x:
        return "VNaN"
    if x in (float("inf"), float("-inf")):
        return "VPInf" if x > 0 else "VNInf"
    if x == 0:
        return "VZ 0%Z" if bits == 0 else "VB %s" % cq_N(bits)
    if abs(x) < 2.0 ** 60:
        q = x * 4
        if q == int(q) and abs(int(q)) < (1 << 52):
            return "VZ %s" % cq_Z(int(q))
    return "VB %s" % cq_N(bits)


def py_label_key(s):
    return py_name(s, False)


def merged(globals_, labels):
    m = {}
    for k, v in list(globals_) + list(labels):
        m[k] = v
    return list(m.items())


def fclass(k):
    return {"c": 0, "g": 1, "r": 1, "h": 2}[k]


def py_wf(c):
    if not special_ok(c):
        return False
    seen = []
    for kind, name, labels in c["keys"]:
        if not name:
            return False
        if any(not k for k, _ in list(c["globals"]) + list(labels)):
            return False
        m = merged(c["globals"], labels)
        ln = [py_label_key(k) for k, _ in m]
        if len(set(ln)) != len(ln) or "le" in ln or "quantile" in ln:
            return False
        sn = py_name(name)
        parts = (sn, tuple('%s="%s"' % (py_label_key(k), py_esc(v, False)) for k, v in m))
        ident = (name, tuple(sorted((k, v) for k, v in labels)))     # metrics::Key equality ignores label order
        for (k2, sn2, p2, id2) in seen:
            if fclass(k2) == fclass(kind):
                if p2 == parts or id2 == ident:
                    return False
            elif sn2 == sn:
                return False
        seen.append((kind, sn, parts, ident))
    return True


class C07(Prop):
    pid = "C07"
    pkg = "hprom"
    binname = "c07"
    quick_cases = 1200
    thorough_cases = 8000
    shard = 60
    rule = ("random builder configurations (0-3 global labels overlapping the keys' label names, unit suffix on/off, summary mode or ascending "
            "global buckets, 0-2 per-metric overrides Full/Prefix/Suffix, quantile sets) x key tables of 1..8 keys (counter / gauge / raw-bits gauge / "
            "histogram; names and label names from small alphabets with sanitisation collisions, 0..4 labels, label values with quotes, backslashes, "
            "newlines) satisfying the precondition x histories of <= 60 operations (Register, Inc/Abs incl. values wrapping 2^64, Set/Inc/Dec of "
            "quarter-exact doubles, raw 64-bit doubles set on raw gauges, Record of samples on and around the bucket bounds; in one case out of four the "
            "special-values family: +inf, -inf, NaN as histogram samples and as gauge set/increment/decrement operands, -0.0 samples and increments, and - only where the "
            "running sum is already +-inf or NaN - subnormal (+-5e-324) and huge (+-1e300) operands, in summary and bucketed mode, Describe of the same "
            "name several times and under several kinds and unsanitised spellings, run_upkeep and render interleaved and repeated; every history ends "
            "with two renders). A case is non-trivial if at least one rendering has a sample; distinct = distinct (case, output). Stress engines: "
            "(1) 4 recording threads x 3 histogram keys + counters || one render/run_upkeep loop, histogram and summary mode, final counts judged (counters exact, no excess, never decreasing, per-key shortfall <= recorders x drains); "
            "(2) visibility: rounds of N completed records, then run_upkeep() || 1-2 render() released by a barrier, every concurrent rendering must show the full cumulative _count/_sum; "
            "(3) handle atomics under contention, every value read from render(): 4 and 8 threads with their own handles on 2-3 series per round, barrier-released rounds of "
            "absolute() with distinct values (round ends at the maximum, a monitor render loop never sees a decrease), increments racing absolutes at or just above the "
            "current value (only the linearisable outcomes), gauge increments/decrements released together (exact sum), set racing increments of distinct powers of two "
            "(set value + a subset); nothing excused.")
    design_ref = "DESIGN.md 4 C07"
    technique = ("Coq proof: refinement of a state-machine model of the recorder (handles, pending bags, persistent distributions keyed by rendered "
                 "name+labels, first-wins descriptions) to a declarative per-key specification over the history, for all histories and configurations; "
                 "differential correspondence of every render() output (strict parse, multiset of sample records) against the model and the "
                 "specification; free-running concurrent stress for the conservation clause")
    level_text = ("Theorems (Coq, all histories of any length over any key table satisfying wf_names, all configurations): every rendering of the model "
                  "equals what the history before it specifies (C07_model_meets_spec): counters are the fold of fetch_add mod 2^64 / fetch_max "
                  "(closed forms: sum of increments mod 2^64, maximum of absolutes), gauges the fold of their operations, each histogram key shows "
                  "_count = number of Record operations made under it, +Inf bucket = _count, bucket(b) = number of samples <= b, _sum = their sum, also when +inf, -inf or NaN samples are among them (count exact; +inf in no finite bucket, -inf in every bucket, NaN in none; sum +-inf / NaN as IEEE addition gives); the "
                  "accounting invariant total_recorded = count(distribution) + |pending| holds after every operation (C07_every_sample_once) for every "
                  "interleaving of Record / Render / Upkeep; labels are the global ones overridden by the key's (C07_labels_global_overridden_by_key); "
                  "HELP is the first description of the sanitised name; rendering twice in a row gives the same rendering. The sequential model is tied to /repo by "
                  "running the real recorder and the model on the same generated histories each run and comparing every render() output. Concurrent clause (C07_conc_*, interleaving model over Common/Interleave.v, every schedule, any number of threads and operations; render/run_upkeep take the distributions lock per key: acquire, clear_with, record_samples + release; the snapshot needs the lock free): at every configuration drained ++ resident = recorded as lists and drained = aggregated ++ in flight in the critical section (exactly once); a render shows exactly the values drained before its snapshot step; every record pushed before a clear of its key that precedes the snapshot is in it; _count never decreases between snapshots; counter/gauge readings are the sequential fold of the updates that preceded the load (counters monotone while they do not wrap); two snapshots with no record of the key since a preceding clear agree.")
    level_note = ("Trusted: Coq kernel; hand-written model (tied by differential runs, not by translation). Sequential model: the Registry is one storage per "
                  "key (C06) and an AtomicBucket is its bag of samples (C05); the concurrent clause is checked by three free-running stress engines only (final totals under concurrent recording, which inherits "
                  "C05's open finding: a sample pushed into a just-detached block is lost - accepted as that finding only up to recorders x drains per key, "
                  "a larger shortfall or any excess is a violation; and visibility of completed records to renders concurrent with upkeep/render, where nothing is excused; and counter/gauge handle updates from 4-8 threads released together, read back through render(), where only linearisable outcomes pass). "
                  "Render/Upkeep are atomic steps of the SEQUENTIAL model; the interleaving model (ConcModel.v) splits them into the code's steps with the lock explicit and proves the clause for every schedule, ASSUMING that each single step is atomic: get_or_create (C06), each handle RMW (C04), push and clear_with (C05, outside its open late-claim class). On the code clause (a) therefore holds only up to the late-claim losses, bounded as engine 1 bounds them (recorders x drains per key). The interleaving model is tied to the code by the stress engines only (the exporter has no yield points for schedule replay), like C19's Conc model and C11's Wake.v; numbers in it are exact integers; describe/labels/rendering text are not in it. Finite doubles are restricted to quarter-exact values below 2^50 so that "
                  "f64 addition is integer addition; +inf, -inf and NaN are in the model: a number is its exact finite part plus how many +inf / -inf / NaN terms went into it, "
                  "shown as the double that denotes (C07_sum_once_with_special_values: a commutative monoid whose classes add as IEEE doubles do; C07_sum_once states the accounting "
                  "for any commutative monoid; rounding is not modelled; -0.0, subnormal and huge operands are exercised only where they cannot change the expected sum); the "
                  "Display/parse round trip is an oracle tested on every rendered value and on a stream of arbitrary bit patterns set on gauges. HashMap order: "
                  "renderings are compared as multisets of sample records, each carrying its family header (family grouping itself is C08's). Summary "
                  "quantile values are not compared. Idle timeout is off (C12). The model renders distributions by looking up each registered histogram key's "
                  "entry rather than by walking the map; that every entry of the map belongs to a registered histogram key, and entries are pairwise different, is proved "
                  "(C07_distributions_belong_to_registered_keys), the permutation between the two walks is not stated as a theorem.")
    assumptions = ["finite doubles in generated histories are multiples of 1/4 below 2^50 in magnitude (f64 addition exact); +inf, -inf and NaN are modelled (inf + -inf = NaN, NaN absorbs, inf + finite = inf); -0.0 operands add exactly nothing and are never SET on a modelled gauge; subnormal and huge finite operands occur only where the running sum is already +-inf / NaN and stand in the model for a quarter-exact number that compares with every (integer quarter-unit) bound as they do; raw gauge bit patterns are arbitrary non-NaN or the canonical NaN",
                   "fewer than 2^64 samples; idle timeout disabled; sequential histories (concurrency: stress engines only)",
                   "Render and Upkeep are single atomic steps of the model: taking the samples out of a bucket and folding them into its distribution entry is atomic with respect to other renders/upkeeps because drain_histograms_to_distributions does both under the distributions write lock (recorder.rs); this code fact is not proved, it is tested by the visibility stress engine",
                   "HashMap iteration order is unspecified: renderings are compared as multisets of sample records"]
    trusted_extra = ["the driver's strict exposition-text reader (harness/hprom/src/bin/c07.rs parse_render) and Rust's str::parse::<f64>",
                     "python decoding of the driver's output and of f64 bit patterns (struct)"]

    special_counts = {}

    # ------------------------------------------------------------------ generator
    def gen_cfg(self, rng):
        lnames = [rng.pick(LNAMES) for _ in range(3)]
        globals_ = [[rng.pick(lnames), rng.pick(LVALS)] for _ in range(rng.weighted([(3, 0), (3, 1), (2, 2), (1, 3)]))]
        r = rng.below(10)
        if r < 4:
            buckets = None
        else:
            buckets = sorted(set(rng.pick(BOUND_POOL) for _ in range(rng.range(1, 4))))
        nk = rng.range(1, 8)
        base = [rng.pick(NAMES) for _ in range(rng.range(1, 4))]
        keys = []
        for _ in range(nk):
            kind = rng.weighted([(3, "c"), (3, "g"), (1, "r"), (4, "h")])
            name = rng.pick(base) if rng.chance(3, 4) else rng.pick(NAMES)
            labels = [[rng.pick(lnames) if rng.chance(3, 4) else rng.pick(LNAMES), rng.pick(LVALS)]
                      for _ in range(rng.weighted([(3, 0), (3, 1), (2, 2), (1, 3), (1, 4)]))]
            keys.append([kind, name, labels])
        overrides = []
        for _ in range(rng.weighted([(5, 0), (3, 1), (1, 2)])):
            mk = rng.pick("FPS")
            nm = rng.pick([k[1] for k in keys] + NAMES)
            pat = nm if mk == "F" else (nm[:rng.range(1, len(nm))] if mk == "P" else nm[-rng.range(1, len(nm)):])
            overrides.append([mk, pat, sorted(set(rng.pick(BOUND_POOL) for _ in range(rng.range(1, 3))))])
        quantiles = rng.pick([QUANTS, ["0.5"], ["0.5", "0.99"], ["0", "1"], ["0.9", "0.5"]])
        return dict(on=1 if rng.chance(1, 2) else 0, globals=globals_, quantiles=list(quantiles), buckets=buckets,
                    overrides=overrides, keys=keys)

    def gen_ops(self, rng, c):
        keys = c["keys"]
        special = rng.chance(1, 4)        # the special-values family: +-inf, NaN, -0.0, subnormal, huge operands
        cls = {}                          # running class of each gauge value / histogram sum
        bounds = list(c["buckets"] or []) + [b for o in c["overrides"] for b in o[2]] + [4]
        ops = []
        n = rng.range(1, 56)
        dnames = sorted(set([k[1] for k in keys] + [k[1].replace("_", "-") for k in keys] + [k[1].replace("-", ".") for k in keys]))
        for _ in range(n):
            r = rng.below(20)
            if r < 2:
                ops.append(["N"])
            elif r < 3:
                ops.append(["U"])
            elif r < 5:
                ops.append(["D", rng.pick("cgh"), rng.pick(dnames) if rng.chance(9, 10) else rng.pick(NAMES),
                            rng.pick([None, None, 0, 1, 2, 3, 10, rng.below(17)]), rng.pick(TEXTS)])
            elif r < 6:
                ops.append(["R", rng.below(len(keys))])
            else:
                i = rng.below(len(keys))
                kind = keys[i][0]
                if rng.chance(1, 30):
                    kind = rng.pick("cgrh")      # an operation that does not fit the key: skipped on both sides
                if kind == "c":
                    v = rng.weighted([(6, rng.below(100)), (1, 0), (1, (1 << 64) - 1), (1, (1 << 63) + rng.below(5)), (1, (1 << 64) - 1 - rng.below(50))])
                    ops.append([rng.weighted([(3, "I"), (1, "A")]), i, v])
                elif kind == "g":
                    v = rng.weighted([(6, rng.range(-40, 40)), (1, 0), (1, (1 << 44) - rng.below(3)), (1, -(1 << 43))])
                    o = rng.pick("SPM")
                    if special and keys[i][0] == "g" and rng.chance(2, 5):
                        v = rng.weighted([(3, "inf"), (2, "-inf"), (2, "nan"), (1, "-0"), (1, rng.pick(WILD))])
                        if (v in WILD and cls.get(i, "f") == "f") or (o == "S" and (v == "-0" or v in WILD)):
                            v = "inf"
                    if keys[i][0] == "g":
                        k2 = val_class(v)
                        if o == "M":
                            k2 = {"inf": "-inf", "-inf": "inf"}.get(k2, k2)
                        cls[i] = k2 if o == "S" else xclass_add(cls.get(i, "f"), k2)
                    ops.append([o, i, v])
                elif kind == "r":
                    b = rng.pick(SPECIAL_BITS) if rng.chance(1, 3) else rng.next()
                    if (b >> 52) & 0x7ff == 0x7ff and b & ((1 << 52) - 1):
                        b = 0x7ff8000000000000
                    ops.append(["X", i, b])
                else:
                    b = rng.pick(bounds)
                    v = rng.weighted([(4, b + rng.range(-1, 1)), (3, rng.range(-8, 60)), (1, (1 << 40) + rng.below(4)), (1, 0)])
                    if special and keys[i][0] == "h" and rng.chance(1, 3):
                        v = rng.weighted([(4, "inf"), (2, "-inf"), (2, "nan"), (1, "-0"), (2, rng.pick(WILD))])
                        if v in WILD and cls.get(i, "f") == "f":
                            v = "inf"
                    if keys[i][0] == "h":
                        cls[i] = xclass_add(cls.get(i, "f"), val_class(v))
                    ops.append(["H", i, v])
        ops += [["N"], ["N"]]
        return ops

    def gen(self, rng, n):
        cases = []
        while len(cases) < n:
            c = self.gen_cfg(rng)
            if not py_wf(c):
                # repair: drop keys until the table satisfies the precondition
                keys = []
                for k in c["keys"]:
                    if py_wf(dict(c, keys=keys + [k])):
                        keys.append(k)
                c["keys"] = keys
                if not keys:
                    continue
            c["ops"] = self.gen_ops(rng, c)
            assert special_ok(c)
            for o in c["ops"]:
                if o[0] in ("S", "P", "M", "H") and isinstance(o[2], str):
                    self.special_counts[o[0] + " " + o[2]] = self.special_counts.get(o[0] + " " + o[2], 0) + 1
            cases.append(c)
        return cases

    # ------------------------------------------------------------------ implementation side
    def impl_line(self, c):
        def ps(l):
            return " ".join([str(len(l))] + ["%s %s" % (hx(k), hx(v)) for k, v in l])
        t = ["C", str(c["on"]), ps(c["globals"]), str(len(c["quantiles"]))] + list(c["quantiles"])
        if c["buckets"] is None:
            t.append("-")
        else:
            t += [str(len(c["buckets"]))] + [fq(b) for b in c["buckets"]]
        t.append(str(len(c["overrides"])))
        for mk, pat, bs in c["overrides"]:
            t += [mk, hx(pat), str(len(bs))] + [fq(b) for b in bs]
        t.append(str(len(c["keys"])))
        for kind, name, labels in c["keys"]:
            t += [kind, hx(name), ps(labels)]
        t.append("|")
        for o in c["ops"]:
            if o[0] in ("N", "U"):
                t.append(o[0])
            elif o[0] == "R":
                t.append("R%d" % o[1])
            elif o[0] in ("I", "A"):
                t.append("%s%d:%d" % (o[0], o[1], o[2]))
            elif o[0] in ("S", "P", "M", "H"):
                t.append("%s%d:%s" % (o[0], o[1], val_txt(o[2])))
            elif o[0] == "X":
                t.append("X%d:%016x" % (o[1], o[2]))
            else:
                t.append("D%s:%s:%s:%s" % (o[1], hx(o[2]), "-" if o[3] is None else o[3], hx(o[4])))
        return " ".join(t)

    def parse_out(self, c, line):
        if line.startswith("P"):
            return {"panic": bytes.fromhex(line[1:]).decode("utf-8", "replace")}
        if line == "":
            return []
        renders = []
        for r in line.split("|"):
            if r.startswith("E"):
                renders.append({"err": bytes.fromhex(r[1:]).decode("utf-8", "replace")})
                continue
            samples = []
            for s in (r[1:].split(";") if len(r) > 1 else []):
                fam, ty, help_, name, labels, extra, value = s.split(",")
                un = lambda h: bytes.fromhex(h).decode("utf-8")
                samples.append([un(fam), int(ty), None if help_ == "-" else un(help_[1:]), un(name),
                                [un(x) for x in labels.split(".")] if labels else [],
                                [extra[0]] + ([int(extra[1:], 16)] if len(extra) > 1 else []),
                                [value[0]] + ([int(value[1:], 16 if value[0] == "f" else 10)] if len(value) > 1 else [])])
            renders.append(samples)
        return renders

    # ------------------------------------------------------------------ Coq side
    def coq_case(self, c):
        ovs = cq_list([cq_pair(cq_pair(MK[mk], cq_str(pat)), cq_list([cq_Z(b) for b in bs])) for mk, pat, bs in c["overrides"]])
        keys = cq_list(["{| k_kind := %s; k_name := %s; k_labels := %s |}" % (KINDS[k], cq_str(n), cq_pairs(ls)) for k, n, ls in c["keys"]])
        cfg = ("{| c_globals := %s; c_unit_on := %s; c_quantiles := %s; c_buckets := %s; c_overrides := %s; c_keys := %s |}" % (
            cq_pairs(c["globals"]), cq_bool(c["on"] == 1), cq_list([cq_N(bits_of(float(q))) for q in c["quantiles"]]),
            cq_opt(None if c["buckets"] is None else cq_list([cq_Z(b) for b in c["buckets"]])), ovs, keys))
        ops = []
        for o in c["ops"]:
            t = o[0]
            if t == "N":
                ops.append("Render")
            elif t == "U":
                ops.append("Upkeep")
            elif t == "R":
                ops.append("Register %s" % cq_N(o[1]))
            elif t in ("I", "A"):
                ops.append("%s %s %s" % ("Inc" if t == "I" else "Abs", cq_N(o[1]), cq_N(o[2])))
            elif t in ("S", "P", "M", "H"):
                ops.append("%s %s %s" % ({"S": "GSet", "P": "GInc", "M": "GDec", "H": "Rec"}[t], cq_N(o[1]), val_coq(o[2])))
            elif t == "X":
                ops.append("GBits %s %s" % (cq_N(o[1]), cq_N(o[2])))
            else:
                ops.append("Describe %s %s %s %s" % (KINDS[o[1]], cq_str(o[2]), "None" if o[3] is None else "(Some %s)" % UNITS[o[3]], cq_str(o[4])))
        return "(%s, %s)" % (cfg, cq_list(ops))

    def coq_sample(self, s):
        fam, ty, help_, name, labels, extra, value = s
        if extra[0] == "n":
            x = "XNone"
        elif extra[0] == "i":
            x = "XInf"
        elif extra[0] == "l":
            v = float_of(extra[1])
            q = v * 4
            x = "XLe %s" % cq_Z(int(q)) if (v == v and abs(v) < 2.0 ** 60 and q == int(q)) else "XQuant %s" % cq_N(extra[1])
        else:
            x = "XQuant %s" % cq_N(extra[1])
        if value[0] == "u":
            v = "VInt %s" % cq_N(value[1])
        elif value[0] == "f":
            v = canon(value[1])
        else:
            v = "VQ"
        return ("{| a_fam := %s; a_type := %s; a_help := %s; a_name := %s; a_labels := %s; a_extra := %s; a_val := %s |}" % (
            cq_str(fam), cq_N(ty), cq_opt(None if help_ is None else cq_str(help_)), cq_str(name),
            cq_list([cq_str(l) for l in labels]), x, v))

    def coq_out(self, c, out):
        def bogus(msg):
            return "[{| a_fam := %s; a_type := 9; a_help := None; a_name := []; a_labels := []; a_extra := XNone; a_val := VQ |}]" % cq_str(msg[:200])
        if isinstance(out, dict):
            return cq_list([bogus("PANIC " + out["panic"])])
        rs = []
        for r in out:
            if isinstance(r, dict):
                rs.append(bogus("UNREADABLE " + r["err"]))
            else:
                rs.append(cq_list([self.coq_sample(s) for s in r]))
        return cq_list(rs)

    def signature(self, c, out):
        if isinstance(out, dict) or not any(isinstance(r, list) and r for r in out):
            return None
        return [c, out]

    def shrink(self, c):
        cands = []
        ops = c["ops"]
        for i in range(len(ops)):
            cands.append(dict(c, ops=ops[:i] + ops[i + 1:]))
        for i in range(len(c["globals"])):
            cands.append(dict(c, globals=c["globals"][:i] + c["globals"][i + 1:]))
        for i in range(len(c["overrides"])):
            cands.append(dict(c, overrides=c["overrides"][:i] + c["overrides"][i + 1:]))
        if c["on"]:
            cands.append(dict(c, on=0))
        if len(c["quantiles"]) > 1:
            cands.append(dict(c, quantiles=c["quantiles"][:1]))
        if c["buckets"] and len(c["buckets"]) > 1:
            cands.append(dict(c, buckets=c["buckets"][:1]))
        # drop the last key when no operation names it
        if c["keys"] and not any(o[0] in "RIASPMXH" and o[1] == len(c["keys"]) - 1 for o in ops):
            cands.append(dict(c, keys=c["keys"][:-1]))
        for i, (k, n, ls) in enumerate(c["keys"]):
            for j in range(len(ls)):
                cands.append(dict(c, keys=c["keys"][:i] + [[k, n, ls[:j] + ls[j + 1:]]] + c["keys"][i + 1:]))
        for i, o in enumerate(ops):
            if o[0] in ("I", "A", "S", "P", "M", "H") and o[2] not in (0, 1):
                cands.append(dict(c, ops=ops[:i] + [[o[0], o[1], 1]] + ops[i + 1:]))
            if o[0] == "D" and o[4]:
                cands.append(dict(c, ops=ops[:i] + [[o[0], o[1], o[2], o[3], ""]] + ops[i + 1:]))
        return [x for x in cands if py_wf(x)][:300]

    # ------------------------------------------------------------------ stress engine
    def extra_checks(self, ctx):
        quick = ctx["tier"] == "quick"
        ctx["coverage"]["special_value_operands"] = dict(sorted(self.special_counts.items()))
        # >= 10^5 samples per round against a few tens of drains (spaced by a pause), so that the bound below discriminates
        per, rounds, gap = (50000, 3, 300) if quick else (150000, 6, 1000)
        threads = 4
        lines = ["T %d %d 3 1 %d %d" % (threads, per, rounds, gap), "T %d %d 3 0 %d %d" % (threads, per, rounds, gap), "T %d %d 1 1 %d %d" % (threads, per, rounds, gap)]
        rc, outs, err = run_impl(ctx["binpath"], lines, timeout=900)
        viol = []
        cov = dict(stress_runs=len(lines) * rounds, stress_samples_recorded=0, stress_renders=0, stress_drains=0, shortfall=0, bound=0, stress_duplicates=0)
        open_known = [k for k in load_known() if k["property"] == self.pid and k["status"] == "open"]
        shortfalls = []
        for line, out in zip(lines, outs):
            if rc != 0 or out.startswith("P") or "recorded=" not in out:
                viol.append(("stress", "the stress driver failed or panicked", dict(stress=line, output=out, stderr=err[-1000:])))
                continue
            f = dict(kv.split("=") for kv in out.split())
            rec = [int(x) for x in f["recorded"].split(",")]
            cnt = [int(x) for x in f["counts"].split(",")]
            ctr = [int(x) for x in f["ctr"].split(",")]
            cov["stress_samples_recorded"] += sum(rec)
            cov["stress_renders"] += int(f["renders"])
            drains = int(f["drains"])
            cov["stress_drains"] += drains
            # C05-late-claim loses at most ONE in-flight push per recording thread per clear of a bucket, i.e. per key and drain
            key_bound = threads * drains
            cov["bound"] += key_bound * len(rec)
            dup = int(f["over"]) > 0 or any(a > b for a, b in zip(cnt, rec))
            if dup:
                cov["stress_duplicates"] += 1
                viol.append(("stress", "a histogram _count exceeded the number of samples recorded under the key (a sample was counted more than once) with recording threads concurrent with render()/run_upkeep()",
                             dict(stress=line, output=out)))
            if int(f["nonmonotone"]) > 0:
                viol.append(("stress", "a histogram _count decreased between two renderings", dict(stress=line, output=out)))
            if ctr != rec:
                viol.append(("stress", "a counter does not show the total of its increments after the recording threads joined", dict(stress=line, output=out)))
            if not dup and any(a < b for a, b in zip(cnt, rec)):
                cov["shortfall"] += sum(b - a for a, b in zip(cnt, rec))
                if any(b - a > key_bound for a, b in zip(cnt, rec)):
                    viol.append(("stress", "a histogram _count fell short of the number of samples recorded under the key by more than the inherited C05-late-claim class can explain "
                                 "(at most one in-flight push per recording thread per drain: %d threads x %d drains started while recording = %d per key): samples are lost by the drain itself"
                                 % (threads, drains, key_bound), dict(stress=line, output=out, per_key_bound=key_bound)))
                else:
                    shortfalls.append((line, out))
        if shortfalls:
            if open_known:
                k = open_known[0]
                print("KNOWN-FINDING: property=%s %s (%s; reproduced on %d stress run(s) this run, total shortfall %d within the class bound recorders x drains = %d)" % (self.pid, k["id"], k["what"], len(shortfalls), cov["shortfall"], cov["bound"]))
            else:
                viol.append(("stress", "a histogram _count is smaller than the number of samples recorded under the key after all recording threads joined (samples lost under concurrent render()/run_upkeep())",
                             dict(stress=shortfalls[0][0], output=shortfalls[0][1])))
        # second engine: visibility of completed records to renders concurrent with run_upkeep()/render().
        # No recorder runs during the concurrent phase, so C05's late-claim class excuses nothing here.
        vper, vrounds = (60000, 24) if quick else (100000, 60)
        vlines = ["V 2 %d %d 1 2" % (vper, vrounds), "V 2 %d %d 0 2" % (vper, vrounds), "V 1 %d %d 1 1" % (vper, vrounds), "V 1 %d %d 0 1" % (vper, vrounds)]
        rc, outs, err = run_impl(ctx["binpath"], vlines, timeout=900)
        cov.update(visibility_rounds=0, visibility_concurrent_renders=0, visibility_short_renders=0)
        for line, out in zip(vlines, outs + [""] * len(vlines)):
            if rc != 0 or not out.startswith("rounds="):
                viol.append(("visibility", "the visibility stress driver failed or panicked", dict(stress=line, output=out, stderr=err[-1000:])))
                continue
            f = dict(kv.split("=", 1) for kv in out.split())
            cov["visibility_rounds"] += int(f["rounds"])
            cov["visibility_concurrent_renders"] += int(f["renders"])
            cov["visibility_short_renders"] += int(f["short"])
            if int(f["short"]) or int(f["over"]) or int(f["settled_bad"]):
                viol.append(("visibility", "a render() running concurrently with run_upkeep()/render() on other threads (no recorder running) did not report exactly the samples whose "
                             "record() had returned before it started: _count/_sum short on %s rendering(s), over on %s, settled rendering wrong %s time(s); first = round:key:recorded:_count:_sum bits %s"
                             % (f["short"], f["over"], f["settled_bad"], f["first"]), dict(stress=line, output=out)))
        # third engine: handle atomics (counter absolute/increment, gauge set/increment/decrement) under contention,
        # every value read from render() of the real exporter; nothing is excused here
        arounds, mrounds = (4000, 1500) if quick else (20000, 8000)
        aruns = [dict(kind="a", T=4, S=3, rounds=arounds, p=16), dict(kind="a", T=8, S=2, rounds=arounds // 2, p=16),
                 dict(kind="m", T=4, S=3, rounds=mrounds, p=40), dict(kind="g", T=4, S=3, rounds=mrounds, p=40),
                 dict(kind="g", T=8, S=2, rounds=mrounds // 2, p=20)]
        alines = ["A %s %d %d %d %d" % (r["kind"], r["T"], r["S"], r["rounds"], r["p"]) for r in aruns]
        rc, outs, err = run_impl(ctx["binpath"], alines, timeout=900)
        cov.update(atomics_runs=len(aruns), atomics_threads=sorted(set(r["T"] for r in aruns)), atomics_series_rounds=0,
                   atomics_monitor_renders=0, atomics_rounds_with_visible_race=0)
        for run, line, out in zip(aruns, alines, outs + [""] * len(alines)):
            if rc != 0 or not out.startswith("panics="):
                viol.append(("atomics", "the atomics stress driver failed or a thread panicked", dict(stress=line, output=out[:2000], stderr=err[-1000:])))
                continue
            f = dict(kv.split("=", 1) for kv in out.split())
            cov["atomics_monitor_renders"] += int(f["samples"])
            why = None
            if int(f["panics"]):
                why = "a handle operation panicked in a worker thread"
            elif int(f["unreadable"]):
                why = "a series was missing from a render() output"
            elif int(f["nonmonotone"]):
                why = "a counter series was seen to DECREASE between two render() outputs of the monitor thread under concurrent absolute()/increment() calls"
            else:
                for k, es in enumerate(f["ends"].split(";")):
                    ends = [int(x, 16 if run["kind"] == "g" else 10) for x in es.split(",")]
                    if len(ends) != run["rounds"]:
                        why = "the driver did not complete all rounds"
                        break
                    why, raced = self.judge_atomic_rounds(run, k, ends)
                    cov["atomics_series_rounds"] += len(ends)
                    cov["atomics_rounds_with_visible_race"] += raced
                    if why:
                        why = "series %d, %s" % (k, why)
                        break
            if why:
                viol.append(("atomics", "handle updates from %d threads released together, read back through render(): %s" % (run["T"], why),
                             dict(stress=line, run=run, output=out[:3000])))
        ctx["coverage"].update(cov)
        return viol

    @staticmethod
    def judge_atomic_rounds(run, k, ends):
        """the linearisable outcomes of each round (same rounds as C04's engine, here seen through the exporter)"""
        kind, T, p = run["kind"], run["T"], run["p"]
        raced, s = 0, 0
        for r, e in enumerate(ends, 1):
            if kind == "a":
                # T distinct absolute values above the current one: the round must end at the largest
                mx = r * p + T + k
                if e != mx:
                    return "round %d: after absolute() from every thread the counter shows %d, not the highest absolute value %d" % (r, e, mx), raced
            elif kind == "m":
                # p increments of kk race absolutes <= s (no-ops) and, in odd rounds, one absolute(s+1)
                kk = 2 + r % 5
                okv = {s + p * kk} | ({s + 1 + p * kk} if r % 2 else set())
                if e not in okv:
                    return ("round %d: counter went %d -> %d with increments totalling %d racing absolute(<= %d): an increment was overwritten "
                            "or an absolute lowered the counter" % (r, s, e, p * kk, s + r % 2)), raced
                raced += 1 if (r % 2 and e == s + p * kk) else 0
            else:
                x, sv = float_of(e), float_of(s)
                if r % 2 == 0:
                    exp = sv + p * sum((i + 1 + r % 3) * (1 if (i + r) % 2 == 0 else -1) for i in range(T))
                    if x != exp:
                        return "round %d: gauge shows %r, expected %r (an increment/decrement was lost or applied twice)" % (r, x, exp), raced
                else:
                    S = float(((r % 1000) + 1) << 20)
                    d = x - S
                    mask = (1 << T) - 2
                    if d != int(d) or d < 0 or int(d) & ~mask:
                        return "round %d: gauge shows %r after set(%r) racing increments of 2^i: not the set value plus a subset of the increments" % (r, x, S), raced
                    raced += 1 if 0 < int(d) < mask else 0
            s = e
        return None, raced


PROP = C07()
