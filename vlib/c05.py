"""C05 — AtomicBucket: schedule replay of pushers, snapshot readers, clearers and is_empty at
atomic-step granularity, including block hand-over (reached through a sequential prefix)."""
import re
from .core import Prop, cq_N, cq_list, cq_bool

B = 64


class C05(Prop):
    pid = "C05"
    pkg = "hcore"
    binname = "c05"
    quick_cases = 900
    thorough_cases = 6000
    shard = 60
    design_ref = "DESIGN.md 4 C05"
    technique = ("Coq proof about an interleaving machine with one step per shared-memory access of bucket.rs (block size a parameter): "
                 "refinement of complete calls to a bag, protocol/chain invariants preserved by every step hence for every schedule and any "
                 "number of threads; schedule-replay correspondence on the real AtomicBucket through yield points at each atomic access")
    level_text = ("Theorems (Coq, block size B a parameter, every B >= 1; 'every schedule' = invariants preserved by each atomic step, any "
                  "number of threads and programs). (1) C05_sequential_bag / C05_sequential_call: any sequence of complete push / data_with / "
                  "clear_with / is_empty calls by any threads refines a bag kept as the list of block contents (push adds exactly its value, "
                  "data_with hands out everything in chain order, clear_with hands out everything and empties, is_empty iff nothing is stored); "
                  "the run of a call alone is unique; C05_sequential_record_many: the HistogramFn entry point record_many(v, n) - run by the machine as n "
                  "consecutive push calls - adds exactly n copies, n = 0 nothing (record = push). (2) every schedule, per-block protocol: below the write index a slot is published or "
                  "claimed by exactly one thread in flight, at or above it untouched (the write index counts the claims, claims are unique per "
                  "block and index); a published bit implies a written slot; the publishing thread finds its own value in its slot; the read at "
                  "site 506 hands out written slots below the published length only. (3) every schedule, chains: the chain from tail is finite, "
                  "strictly decreasing in block id and every block behind another is full; C05_detached_chains_have_one_owner (J4): the chains "
                  "hanging off tail and off every clearing thread are pairwise disjoint. (4a) every schedule, WITH OR WITHOUT late claims - "
                  "uniqueness of delivery: C05_no_identity_cleared_twice (each identity is counted at most once over all clearing reads of all "
                  "threads, calls in progress included), C05_identity_in_one_slot, C05_no_fabrication (every slot value and every value handed to "
                  "a clear is the value a push call of the program was given, tagged with that call's thread and index). (4b) "
                  "C05_conservation_except_late_claim, every schedule whose ghost flag `late` is still false (= no fetch_add returned an index "
                  "< B on a block not reachable from tail): every COMPLETED push call has its identity in a published slot of exactly one block, "
                  "and that block is still owned (reachable from tail, or from the clearer that detached it and has not read it yet) or else the "
                  "value has been handed to a clear - never both, at most once; retired blocks are complete. C05_conservation_on_model_runs: "
                  "known_class c = None implies this invariant at the end of the model's run of case c. (5) C05_snapshot_sees_completed, every "
                  "schedule incl. concurrent clears and late claims: every value published in a block reachable from the tail pointer a "
                  "data_with call loaded at its first step (530) is, at every later configuration, already handed to the callback or still "
                  "ahead of the walking thread, and once the call has returned it is in the slices the call was handed. (6) C05_is_empty_sound "
                  "(code after fixes 1a8142c and 0248974: the whole bitmap of every block of the chain), every schedule, any number of threads: "
                  "is_empty = true implies that nothing published when it loaded the tail (520) sits in any block reachable from that tail; "
                  "is_empty = false implies some slot is published. (7) C05_block_order: the slice handed out at 506 is slot 0..len-1 and slot order is claim order (fetch_add "
                  "returns and bumps the write index, which never decreases and bounds every claimed index). (8) C05_spec_ok_sound: Prop-level "
                  "meaning of spec_ok = true for the clauses without trace positions. (9) C05_spec_ok_on_model: THE CONJUNCTION - the trace-level checker spec_ok "
                  "(all of S0-S5) accepts the model's run of every case outside the late-claim class. Its clauses, on the model's "
                  "own run of every case (trace-indexed ledger, Common/InterleaveTrace): no anomaly and results shaped like the programs (S0), no "
                  "identity handed to clears twice and no single read handed an identity twice (S1, threads), every slice handed to a thread's "
                  "callback has its 506 position and every value in it is in the push table with a strictly earlier slot-write position (S2: "
                  "written-before-read and no fabrication on trace positions); C05_spec_clauses_on_model_every_case adds, again for every case: the final "
                  "sequential read is duplicate-free and every value of it is in the push table with a slot-write position; claim positions "
                  "strictly increase along every slice, thread slices and final read (S4; per-block claim ledger) - i.e. all of spec_run except "
                  "S3 and S5. C05_final_read_finishes: with the state-derived fuel Exec.final_fuel the final reader always completes when all threads "
                  "are done and returns exactly the published slots of the live chain; C05_spec_conservation_on_model: clause S5 (pushes = cleared "
                  "+ final, no duplicate, same number) on the model's run of every case outside the late-claim class when the run is done. "
                  "C05_spec_pub_positions_on_model: a push-table entry with a 503 position is a completed push whose value sits in a published "
                  "slot. C05_is_empty_beyond_B_threads_refuted_before_fix: with 67 threads the is_empty of the code before fix 0248974 (one look-back) "
                  "returned true over 64 completed resident pushes; the chain-walking is_empty returns false and spec_ok accepts the run. "
                  "C05_race_example_run_ok: a racing hand-over case with spec_ok = true. C05_spec_snapshot_completeness_on_model_no_clear: clause S3 "
                  "for data_with calls (every push whose 503 position is below the call's 530 position is in the slices handed to the call) on "
                  "the model's run of every case whose programs contain no clear_with; "
                  "C05_spec_is_empty_true_completeness_on_model_no_clear: clause S3 for is_empty calls that return true (no push has its 503 "
                  "position below the call's 520 position) on the same cases. "
                  "C05_spec_is_empty_false_needs_publication_on_model: clause S3 for is_empty calls that return false, on every case (some push "
                  "has its 503 position below the call's last read, Spec.empty_end). C05_spec_is_empty_completeness_on_model_no_clear: both "
                  "is_empty halves. C05_spec_ok_on_model_no_clear: THE CONJUNCTION for programs without clear_with - spec_ok (all of S0-S5) "
                  "accepts the model's run of every case whose programs contain no clear_with (such a case is never in the late-claim class: "
                  "C05_no_clear_not_late_claim). C05_spec_completeness_on_model: clause S3 on EVERY case outside the late-claim class when the run "
                  "is done - every data_with and is_empty = true call accounts for every push published before its start (handed to the call, "
                  "or in the handed of a clear call whose rcas lies before the start), every is_empty = false call has a publication before its "
                  "last read; proved with a detach ledger on the trace (the CAS of a clearing walk is the last 541 position of its thread and "
                  "lies below all 506 positions of the call; last_below p541 of a completed call's first 506 position is that CAS), an "
                  "attribution predicate that is stable under every step outside the class and covers every published slot of a block not "
                  "reachable from tail, and the snapshot / is_empty invariants run along the trace with the obligation set 'published before the "
                  "start and not attributed before the start'. "
                  "The open finding is a theorem "
                  "(C05_late_claim_refutes) and so are the two repaired defects (the model of the code before each fix violates spec_ok outside "
                  "the late-claim class, the model after the fix does not). Tied to /repo by (i) replaying generated schedules on the real "
                  "AtomicBucket<Val> through yield points at every shared-memory access and comparing step trace, every slice handed to every "
                  "callback, every is_empty result and a final sequential read, with the executable property spec_ok evaluated on the "
                  "implementation's outputs, and (ii) a free-running stress engine on real threads judged by the same property.")
    level_note = ("Nothing of the declared statement is left unproved: C05_spec_ok_on_model (spec_ok accepts the model's run of every case outside "
                  "the late-claim class) is proved, from C05_spec_clauses_on_model_every_case (S0, S1, S2, S4, every case, in or out of the class), "
                  "C05_spec_completeness_on_model (S3, outside the class, run done) and C05_spec_conservation_on_model (S5, outside the class, run "
                  "done). Inside the late-claim class only S0, S1, S2, S4 and the is_empty = false clause of S3 are proved (S3 for data_with / "
                  "is_empty = true and S5 are false there: C05_late_claim_refutes). C05_spec_ok_sound gives a Prop reading only for the clauses "
                  "without trace positions; the position-based clauses (S2, S3, S4) are stated as the checker's booleans. The model is tied to "
                  "/repo by the correspondence check and the stress engine, not by proof. Corrected oracle defect: "
                  "Exec.final_data's constant fuel (400) replaced by 4 * blocks + 8, proved sufficient. The conservation theorem speaks about "
                  "configurations (slots, ownership, per-thread delivered lists); its reading as 'completed = delivered (+) resident' uses "
                  "C05_no_fabrication / R3 (every completed push call has a published slot). Open known finding C05-late-claim (class 1 = the "
                  "model's run of the case sets the ghost flag `late`; includes benign instances where the clearer still waits for the late "
                  "claim) suppresses spec failures only on cases in that class; in the stress engine a value handed to nobody is excused only "
                  "if some concurrent clear_with call overlapped that push on a logical clock. SC interleaving; epoch reclamation "
                  "(crossbeam-epoch), Block::drop and Backoff are exercised (drop counters: no double drop, no value seen after its destructor) "
                  "but not modelled; block ids are never reused in the model (what the epoch guard guarantees while a thread is pinned). "
                  "BLOCK_SIZE = 64 in Exec.v; theorems are for every B >= 1. AtomicBucket has no Drop impl: blocks still in the bucket when it "
                  "is dropped are leaked with their values (observed, outside this property).")
    rule = ("2-4 threads with 1-3 calls each drawn from the mixes {2 pushers | clearer}, {pusher | clearer | snapshot}, {2 pushers at "
            "hand-over | snapshot}, {2 clearers | pusher}, plus is_empty callers; two in five cases start with a sequential prefix of 62-64 "
            "pushes by one thread so that the raced suffix runs across block hand-over; schedules uniform, bursty or with out-of-range "
            "indices, followed by the round-robin tail; non-trivial = a read (snapshot/clear/is_empty) overlapped a push; distinct = distinct "
            "(programs, executed trace); one case in eight is a single-threaded run through the HistogramFn entry points of an AtomicBucket<f64> "
            "(record, record_many with counts 0, 1, 2, 63, 64, 65 and up to ~320, via metrics::Histogram::from_arc handles and via the trait) mixed with reads")
    assumptions = ["SC memory model", "yield hooks placed before each shared-memory access of bucket.rs", "BLOCK_SIZE = 64 (64-bit target)"]
    trusted_extra = ["harness/sched deterministic scheduler", "stress oracle in harness/hcore/src/bin/c05.rs (logical-clock overlap test for the late-claim excuse)", "crossbeam-epoch reclamation (exercised with drop counters, not modelled)"]

    # ---- generator
    def _sched(self, rng, nt, total, pre):
        L = rng.range(0, total + 6)
        style = rng.below(4)
        sched = list(pre)
        for _ in range(L):
            if style == 1 and sched and rng.chance(2, 3):
                sched.append(sched[-1])
            elif style == 2:
                sched.append(rng.below(nt + 1))
            elif style == 3 and sched and rng.chance(4, 5):
                sched.append(sched[-1])
            else:
                sched.append(rng.below(nt))
        return sched

    def _hist_case(self, rng):
        # sequential cases through the HistogramFn entry points: record / record_many (counts at the block
        # boundaries, zero included) mixed with reads; at most ~330 pushes per case
        prog, budget = [], 330
        for _ in range(rng.range(1, 6)):
            kind = rng.weighted([(5, "M"), (2, "R"), (2, "D"), (2, "C"), (2, "E")])
            if kind == "M":
                cnt = rng.weighted([(4, 0), (3, 1), (2, 2), (2, 63), (2, 64), (2, 65), (1, rng.range(3, 62)),
                                    (1, rng.range(66, 140)), (1, rng.range(200, 320))])
                if cnt > budget:
                    cnt = rng.pick([0, 1, 2])
                budget -= cnt
                prog.append("M%dx%d" % (rng.below(4), cnt))
            elif kind == "R":
                prog.append("R%d" % rng.below(4))
                budget -= 1
            else:
                prog.append(kind)
        if rng.chance(1, 2):
            prog.append(rng.pick(["D", "C", "E"]))
        sched = [rng.below(2) for _ in range(rng.range(0, 6))] if rng.chance(1, 3) else []
        return dict(progs=[prog], sched=sched, hist=1)

    def _window_case(self, rng):
        # directed family: a reader is parked INSIDE its walk (between 504 and 505, between the quiescence test
        # and the read 506, or just after the read) while two pushers, parked at their claim, take a few steps
        # each in a chosen order (one only claims or claims+writes, the other runs a whole push): out-of-order
        # completion, claims after the quiescence test, publication between the two bitmap reads.
        k = rng.weighted([(4, 0), (2, 1), (2, 2), (1, rng.range(3, 40)), (1, 61), (1, 62)])   # completed pushes before
        a = ["P%d" % (i % 4) for i in range(k)] + ["P%d" % rng.below(4) for _ in range(rng.range(1, 2))]
        b = ["P%d" % rng.below(4) for _ in range(rng.range(1, 2))]
        rk = rng.weighted([(5, "D"), (3, "C"), (1, "E")])
        r = [rk] + ([rng.pick(["D", "C", "E"])] if rng.chance(1, 4) else [])
        park_a = 3 if k == 0 else 1 + 5 + 4 * (k - 1) + 1
        sched = [0] * max(0, park_a + rng.weighted([(1, -1), (5, 0), (2, 1), (1, 2)]))
        sched += [1] * rng.weighted([(1, 1), (5, 2), (1, 3)])
        base = {"D": 1, "C": 2, "E": 1}[rk]          # steps before the first 504 / 521
        sched += [2] * (base + rng.weighted([(1, 0), (1, 1), (3, 2), (6, 3), (2, 4)]))
        x, y = (0, 1) if rng.chance(1, 2) else (1, 0)
        vict, full = [x] * rng.weighted([(3, 1), (2, 2)]), [y] * rng.weighted([(4, 3), (1, 4), (1, 2)])
        sched += (vict + full) if rng.chance(3, 4) else (full + vict)
        sched += [2] * rng.range(1, 3)
        sched += [rng.below(3) for _ in range(rng.range(0, 8))]
        return dict(progs=[a, b, r], sched=sched)

    def gen(self, rng, n):
        cases = []
        for _ in range(n):
            if rng.chance(1, 8):
                cases.append(self._hist_case(rng))
                continue
            if rng.chance(1, 7):
                cases.append(self._window_case(rng))
                continue
            mix = rng.weighted([(3, "ppc"), (3, "pcs"), (3, "pps"), (2, "ccp"), (2, "e"), (1, "any")])
            def pusher(lo=1, hi=3):
                return ["P%d" % rng.below(4) for _ in range(rng.range(lo, hi))]
            def reader(kinds):
                return [rng.pick(kinds) for _ in range(rng.range(1, 2))]
            if mix == "ppc":
                progs = [pusher(), pusher(), reader(["C"])]
            elif mix == "pcs":
                progs = [pusher(), reader(["C"]), reader(["D"])]
            elif mix == "pps":
                progs = [pusher(), pusher(), reader(["D"])]
            elif mix == "ccp":
                progs = [reader(["C"]), reader(["C"]), pusher()]
            elif mix == "e":
                progs = [pusher(), pusher(1, 2), reader(["E", "E", "C", "D"])]
            else:
                progs = [[rng.pick(["P1", "P2", "D", "C", "E"]) for _ in range(rng.range(1, 3))] for _ in range(rng.range(2, 3))]
            if rng.chance(1, 4):
                # a read in the middle of a pusher's program
                t = rng.below(len(progs))
                progs[t].insert(rng.below(len(progs[t]) + 1), rng.pick(["C", "D", "E"]))
            progs = rng.shuffle(progs)
            nt = len(progs)
            pre = []
            if rng.chance(2, 5):
                # sequential prefix: thread t first pushes 62..64 values alone
                t = next((i for i, p in enumerate(progs) if p and p[0][0] == "P"), 0)
                k = rng.range(B - 2, B)
                progs[t] = ["P%d" % (i % 4) for i in range(k)] + progs[t]
                pre = [t] * (2 + 4 * k + rng.range(0, 3))
            total = sum(1 + 5 * min(len(p), 4) for p in progs)
            cases.append(dict(progs=progs, sched=self._sched(rng, nt, total, pre)))
        return cases

    # ---- running: a crash of the driver process (abort in the allocator, segfault) on some case is an
    # outcome of that case (anomaly 999, fails spec_ok), not a broken harness; the rest is run in a fresh process
    def evaluate(self, binpath, cases, tier, tag="cases"):
        from . import core
        if not cases:
            return []
        lines = [self.impl_line(c) for c in cases]
        outs = []
        while len(outs) < len(lines):
            rc, got, err = core.run_impl(binpath, lines[len(outs):], args=self.impl_args(tier), timeout=1800)
            outs += got[:len(lines) - len(outs)]
            if len(outs) < len(lines):
                if rc == 0:
                    raise core.MachineryBroken("harness binary %s printed %d lines for %d cases\nstderr: %s" % (binpath, len(outs), len(lines), err[-2000:]))
                outs.append(" ;  ; 0 ;  ; 999")      # the case the process died on
        parsed = [self.parse_out(c, o) for c, o in zip(cases, outs)]
        triples = [(i, self.coq_case(c), self.coq_out(c, o)) for i, (c, o) in enumerate(zip(cases, parsed))]
        res = core.run_model(self.pid, triples, exec_mod=self.exec_mod, shard=self.shard, tag=tag)
        return [dict(case=c, out=o, agree=res[i][0], spec=res[i][1], known=res[i][2])
                for i, (c, o) in enumerate(zip(cases, parsed))]

    # ---- plumbing
    def impl_line(self, c):
        line = "%s ; %s" % ("|".join(",".join(p) for p in c["progs"]), " ".join(map(str, c["sched"])))
        return ("H " + line) if c.get("hist") else line

    @staticmethod
    def _slices(s):
        out = []
        for m in re.finditer(r"\[([^\]]*)\]", s):
            body = m.group(1)
            out.append([[int(a) for a in x.split(".")] for x in body.split("+")] if body else [])
        return out

    def parse_out(self, c, line):
        tr, rs, done, fin, anom = [x.strip() for x in line.split(";")]
        trace = [[int(a), int(b)] for a, b in (x.split(":") for x in tr.split())]
        res = []
        for p in rs.split("|"):
            r = []
            for t in [t for t in p.split(",") if t]:
                if t[0] in "DC":
                    r.append([t[0], self._slices(t[1:])])
                else:
                    r.append([t])
            res.append(r)
        return dict(trace=trace, res=res, done=int(done), final=self._slices(fin), anom=int(anom))

    def coq_case(self, c):
        def call(x):
            if x[0] == "M":
                v, cnt = x[1:].split("x")
                return "XMany %s %s" % (cq_N(int(v)), cq_N(int(cnt)))
            return "XCall (%s)" % ({"D": "CData", "C": "CClear", "E": "CEmpty"}.get(x) or "CPush %s" % cq_N(int(x[1:])))
        return "(%s, %s)" % (cq_list([cq_list([call(x) for x in p]) for p in c["progs"]]),
                             cq_list([cq_N(t) for t in c["sched"]]))

    @staticmethod
    def _cq_slices(sl):
        return cq_list([cq_list(["(%s, %s, %s)" % (cq_N(a), cq_N(b), cq_N(v)) for a, b, v in s]) for s in sl])

    def coq_out(self, c, o):
        def res(t):
            if t[0] == "P":
                return "RPush"
            if t[0] == "E0":
                return "REmpty false"
            if t[0] == "E1":
                return "REmpty true"
            return "%s %s" % ("RData" if t[0] == "D" else "RClear", self._cq_slices(t[1]))
        return "(%s, %s, %s, %s, %s)" % (
            cq_list(["(%s, %s)" % (cq_N(a), cq_N(b)) for a, b in o["trace"]]),
            cq_list([cq_list([res(t) for t in p]) for p in o["res"]]),
            cq_bool(o["done"]), self._cq_slices(o["final"]), cq_N(o["anom"]))

    def signature(self, c, o):
        if c.get("hist"):
            return ["hist", c["progs"]] if any(x[0] == "M" for x in c["progs"][0]) else None
        tr = o["trace"]
        # a read's first step falls between some push's first step and its publication
        readers = [i for i, (_, s) in enumerate(tr) if s in (530, 540, 520, 504, 506, 541)]
        if not readers:
            return None
        open_push = {}
        overl = False
        for i, (t, s) in enumerate(tr):
            if s == 510 and t not in open_push:
                open_push[t] = i
            elif s == 503:
                open_push.pop(t, None)
            elif s in (530, 540, 520, 504, 505, 506, 541, 521) and any(u != t for u in open_push):
                overl = True
                break
        if not overl:
            return None
        short = [p if len(p) < 20 else ["pre%d" % len(p)] + p[-3:] for p in c["progs"]]
        return [short, [x for x in tr if x[1] not in (502, 503)][-80:]]

    def shrink(self, c):
        if c.get("hist"):
            out, p = [], c["progs"][0]
            for i in range(len(p)):
                out.append(dict(c, progs=[p[:i] + p[i + 1:]]))
                if p[i][0] == "M":
                    v, cnt = p[i][1:].split("x")
                    for smaller in (0, 1, int(cnt) // 2):
                        if smaller < int(cnt):
                            out.append(dict(c, progs=[p[:i] + ["M%sx%d" % (v, smaller)] + p[i + 1:]]))
            if c["sched"]:
                out.append(dict(c, sched=[]))
            return out[:48]
        out = []
        s = c["sched"]
        # the leading burst (sequential prefix) is kept; cut the raced suffix from the end, then single entries
        k = 0
        while k < len(s) and s[k] == s[0]:
            k += 1
        if k < 40:
            k = 0
        tail = s[k:]
        for cut in (len(tail) // 2, len(tail) // 4):
            if cut > 0:
                out.append(dict(c, sched=s[:k] + tail[:-cut]))
        for t, p in enumerate(c["progs"]):
            if len(p) <= 8:
                for i in range(len(p)):
                    q = [list(x) for x in c["progs"]]
                    del q[t][i]
                    out.append(dict(c, progs=q))
        for i in range(len(tail) - 1, -1, -1):
            out.append(dict(c, sched=s[:k] + tail[:i] + tail[i + 1:]))
        return out[:48]


    # ---- free-running stress engine (real threads, no scheduler callback), judged by the property
    def extra_checks(self, ctx):
        from .core import run_impl
        k = 1 if ctx["tier"] == "quick" else 4
        lines = ["STRESS %d %d 0 0" % (ctx["seed"] * 7 + i, 600) for i in range(k)] + \
                ["STRESS %d %d 8000 0" % (ctx["seed"] * 13 + i, 4) for i in range(k)] + \
                ["STRESS %d %d 0 8" % (ctx["seed"] * 17 + i, 500) for i in range(k)] + \
                ["STRESS %d %d 4000 16" % (ctx["seed"] * 19 + i, 3) for i in range(k)]
        rc, outs, err = run_impl(ctx["binpath"], lines, timeout=1200)
        tot = dict(rounds=0, pushes=0, handovers=0, clear_calls=0, snapshots=0, is_empty_calls=0,
                   lost_excused_by_concurrent_clear=0, violations=0)
        first = None
        for o in outs:
            m = re.match(r"stress (.*?) first=(.*)$", o)
            if not m:
                continue
            for kv in m.group(1).split():
                a, b = kv.split("=")
                tot[a] += int(b)
            if m.group(2) != "-" and first is None:
                first = m.group(2)
        ctx["coverage"]["stress"] = tot
        ctx["coverage"]["stress_rule"] = ("free-running rounds: 4-8 pushers of tagged values || 0-2 clearers (pausing between clears) || 1-2 "
                                          "snapshotters || an is_empty prober when nobody clears, then join + final clear_with; violations: "
                                          "fabricated/torn/dropped value handed out, identity handed to clears twice or shown twice by one "
                                          "snapshot, per-thread order broken inside a slice, a value handed to nobody unless a concurrent "
                                          "clear_with call overlapped its push (late-claim class), and - with no concurrent clearer - a snapshot "
                                          "missing a push that returned before it began or is_empty = true after a push returned. Half of the rounds run with noise "
                                          "injection: the yield points of the hook commit stall the calling thread for a random 0-4000 spins (or a "
                                          "yield) with probability 1/8 or 1/16 per shared-memory access, widening every window between two accesses")
        if rc != 0 or len(outs) != len(lines):
            return [("stress", "the stress engine crashed or did not finish (rc=%s)" % rc,
                     dict(stress_lines=lines, observed=outs, stderr=err[-800:]))]
        if tot["violations"]:
            return [("stress", "free-running stress round violates the property: %s" % first,
                     dict(stress_lines=lines, observed=outs, totals=tot))]
        return []


PROP = C05()
