"""C05 — AtomicBucket: schedule replay of pushers, snapshot readers, clearers and is_empty at
atomic-step granularity, including block hand-over (reached through a sequential prefix)."""
import re
from .core import Prop, cq_N, cq_list, cq_bool

B = 64


class C05(Prop):
    pid = "C05"
    pkg = "hcore"
    binname = "c05"
    quick_cases = 900
    thorough_cases = 20000
    shard = 60
    design_ref = "DESIGN.md 4 C05"
    technique = ("Coq proof about an interleaving machine with one step per shared-memory access of bucket.rs (block size a parameter): "
                 "refinement of complete calls to a bag, protocol/chain invariants preserved by every step hence for every schedule and any "
                 "number of threads; schedule-replay correspondence on the real AtomicBucket through yield points at each atomic access")
    level_text = "see level_text in vlib/c05.py (filled in at the end of the build)"
    level_note = ""
    rule = ("2-4 threads with 1-3 calls each drawn from the mixes {2 pushers | clearer}, {pusher | clearer | snapshot}, {2 pushers at "
            "hand-over | snapshot}, {2 clearers | pusher}, plus is_empty callers; half of the cases start with a sequential prefix of 62-64 "
            "pushes by one thread so that the raced suffix runs across block hand-over; schedules uniform, bursty or with out-of-range "
            "indices, followed by the round-robin tail; non-trivial = a read (snapshot/clear/is_empty) overlapped a push; distinct = distinct "
            "(programs, executed trace)")
    assumptions = ["SC memory model", "yield hooks placed before each shared-memory access of bucket.rs", "BLOCK_SIZE = 64 (64-bit target)"]
    trusted_extra = ["harness/sched deterministic scheduler", "crossbeam-epoch reclamation (exercised with drop counters, not modelled)"]

    # ---- generator
    def _sched(self, rng, nt, total, pre):
        L = rng.range(0, total + 6)
        style = rng.below(4)
        sched = list(pre)
        for _ in range(L):
            if style == 1 and sched and rng.chance(2, 3):
                sched.append(sched[-1])
            elif style == 2:
                sched.append(rng.below(nt + 1))
            elif style == 3 and sched and rng.chance(4, 5):
                sched.append(sched[-1])
            else:
                sched.append(rng.below(nt))
        return sched

    def gen(self, rng, n):
        cases = []
        for _ in range(n):
            mix = rng.weighted([(3, "ppc"), (3, "pcs"), (3, "pps"), (2, "ccp"), (2, "e"), (1, "any")])
            def pusher(lo=1, hi=3):
                return ["P%d" % rng.below(4) for _ in range(rng.range(lo, hi))]
            def reader(kinds):
                return [rng.pick(kinds) for _ in range(rng.range(1, 2))]
            if mix == "ppc":
                progs = [pusher(), pusher(), reader(["C"])]
            elif mix == "pcs":
                progs = [pusher(), reader(["C"]), reader(["D"])]
            elif mix == "pps":
                progs = [pusher(), pusher(), reader(["D"])]
            elif mix == "ccp":
                progs = [reader(["C"]), reader(["C"]), pusher()]
            elif mix == "e":
                progs = [pusher(), pusher(1, 2), reader(["E", "E", "C", "D"])]
            else:
                progs = [[rng.pick(["P1", "P2", "D", "C", "E"]) for _ in range(rng.range(1, 3))] for _ in range(rng.range(2, 3))]
            if rng.chance(1, 4):
                # a read in the middle of a pusher's program
                t = rng.below(len(progs))
                progs[t].insert(rng.below(len(progs[t]) + 1), rng.pick(["C", "D", "E"]))
            progs = rng.shuffle(progs)
            nt = len(progs)
            pre = []
            if rng.chance(2, 5):
                # sequential prefix: thread t first pushes 62..64 values alone
                t = next((i for i, p in enumerate(progs) if p and p[0][0] == "P"), 0)
                k = rng.range(B - 2, B)
                progs[t] = ["P%d" % (i % 4) for i in range(k)] + progs[t]
                pre = [t] * (2 + 4 * k + rng.range(0, 3))
            total = sum(1 + 5 * min(len(p), 4) for p in progs)
            cases.append(dict(progs=progs, sched=self._sched(rng, nt, total, pre)))
        return cases

    # ---- plumbing
    def impl_line(self, c):
        return "%s ; %s" % ("|".join(",".join(p) for p in c["progs"]), " ".join(map(str, c["sched"])))

    @staticmethod
    def _slices(s):
        out = []
        for m in re.finditer(r"\[([^\]]*)\]", s):
            body = m.group(1)
            out.append([[int(a) for a in x.split(".")] for x in body.split("+")] if body else [])
        return out

    def parse_out(self, c, line):
        tr, rs, done, fin, anom = [x.strip() for x in line.split(";")]
        trace = [[int(a), int(b)] for a, b in (x.split(":") for x in tr.split())]
        res = []
        for p in rs.split("|"):
            r = []
            for t in [t for t in p.split(",") if t]:
                if t[0] in "DC":
                    r.append([t[0], self._slices(t[1:])])
                else:
                    r.append([t])
            res.append(r)
        return dict(trace=trace, res=res, done=int(done), final=self._slices(fin), anom=int(anom))

    def coq_case(self, c):
        def call(x):
            return {"D": "CData", "C": "CClear", "E": "CEmpty"}.get(x) or "CPush %s" % cq_N(int(x[1:]))
        return "(%s, %s)" % (cq_list([cq_list([call(x) for x in p]) for p in c["progs"]]),
                             cq_list([cq_N(t) for t in c["sched"]]))

    @staticmethod
    def _cq_slices(sl):
        return cq_list([cq_list(["(%s, %s, %s)" % (cq_N(a), cq_N(b), cq_N(v)) for a, b, v in s]) for s in sl])

    def coq_out(self, c, o):
        def res(t):
            if t[0] == "P":
                return "RPush"
            if t[0] == "E0":
                return "REmpty false"
            if t[0] == "E1":
                return "REmpty true"
            return "%s %s" % ("RData" if t[0] == "D" else "RClear", self._cq_slices(t[1]))
        return "(%s, %s, %s, %s, %s)" % (
            cq_list(["(%s, %s)" % (cq_N(a), cq_N(b)) for a, b in o["trace"]]),
            cq_list([cq_list([res(t) for t in p]) for p in o["res"]]),
            cq_bool(o["done"]), self._cq_slices(o["final"]), cq_N(o["anom"]))

    def signature(self, c, o):
        tr = o["trace"]
        # a read's first step falls between some push's first step and its publication
        readers = [i for i, (_, s) in enumerate(tr) if s in (530, 540, 520, 504, 506, 541)]
        if not readers:
            return None
        open_push = {}
        overl = False
        for i, (t, s) in enumerate(tr):
            if s == 510 and t not in open_push:
                open_push[t] = i
            elif s == 503:
                open_push.pop(t, None)
            elif s in (530, 540, 520, 504, 505, 506, 541, 521) and any(u != t for u in open_push):
                overl = True
                break
        if not overl:
            return None
        short = [p if len(p) < 20 else ["pre%d" % len(p)] + p[-3:] for p in c["progs"]]
        return [short, [x for x in tr if x[1] not in (502, 503)][-80:]]

    def shrink(self, c):
        out = []
        s = c["sched"]
        # drop schedule entries (but keep long leading bursts intact first)
        for i in range(len(s) - 1, -1, -1):
            if i > 0 and i < len(s) - 1 and s[i - 1] == s[i] == s[i + 1] and i < len(s) - 40:
                continue
            out.append(dict(c, sched=s[:i] + s[i + 1:]))
        for t, p in enumerate(c["progs"]):
            if len(p) <= 8:
                for i in range(len(p)):
                    q = [list(x) for x in c["progs"]]
                    del q[t][i]
                    out.append(dict(c, progs=q))
        return out


PROP = C05()
